#!/usr/bin/env python3
"""Deliberate property-breaking changes (DESIGN.md section 6). Each is applied to a scratch worktree of /repo
under /dev/shm, the named quick check is run against it (VERIF_REPO), a VIOLATION line for that property is
expected, and the worktree is removed again.   usage: tools/mutants.py [name ...] [--suite]"""
import os, subprocess, sys, shutil, json

ENV = dict(os.environ, GOFLAGS="-mod=mod", GOPROXY="off", GOSUMDB="off", GOTOOLCHAIN="local")

# name: (property, file, old, new)
M = {
 "c01-skip-verify-on-put": ("C01", "blob.go", "\t\terr = bc.Verify(d)\n\t\tif err != nil {\n\t\t\ts.log.Error(\"invalid digest\"", "\t\terr = bc.Verify(d)\n\t\tif err != nil && bc.Size() == 0 {\n\t\t\ts.log.Error(\"invalid digest\""),
 "c02-limit-check-dropped": ("C02", "manifest.go", "if r.ContentLength > s.conf.API.Manifest.Limit {", "if r.ContentLength > s.conf.API.Manifest.Limit*2 {"),
 "c03-last-inclusive": ("C03", "tag.go", "strings.Compare(last, d.Annotations[types.AnnotRefName]) < 0", "strings.Compare(last, d.Annotations[types.AnnotRefName]) <= 0"),
 "c04-layer-check-dropped": ("C04", "manifest.go", "\tfor _, d := range m.Layers {\n\t\tr, err := repo.BlobGet(d.Digest)", "\tfor _, d := range m.Layers[:0] {\n\t\tr, err := repo.BlobGet(d.Digest)"),
 "c05-index-children-not-walked": ("C05", "internal/store/store.go", "\t\t\tfor _, child := range man.Manifests {\n\t\t\t\tmanifests = append(manifests, child.Copy())\n\t\t\t}", "\t\t\tfor _, child := range man.Manifests[:len(man.Manifests)/2] {\n\t\t\t\tmanifests = append(manifests, child.Copy())\n\t\t\t}"),
 "c05-grace-sign": ("C05", "internal/store/store.go", "if errMeta == nil && conf.Storage.GC.GracePeriod >= 0 && bInfo.mod.After(cutoff) && !inIndex[d] {", "if errMeta == nil && conf.Storage.GC.GracePeriod >= 0 && bInfo.mod.Before(cutoff) && !inIndex[d] {"),
 "c06-index-not-pruned": ("C06", "internal/store/store.go", "\t\tif _, err := index.GetDesc(d.String()); err == nil {\n\t\t\tmod = true\n\t\t\tindex.RmDesc(types.Descriptor{Digest: d})\n\t\t}", "\t\tif _, err := index.GetDesc(d.String()); err == nil {\n\t\t\tmod = true\n\t\t}"),
 "c07-index-artifacts-not-added": ("C07", "manifest.go", "\t\tif m.Subject != nil && m.Subject.Digest != \"\" && *s.conf.API.Referrer.Enabled {\n\t\t\tsubject = m.Subject.Digest\n\t\t\treferrer = &types.Descriptor{\n\t\t\t\tMediaType:    mt,\n\t\t\t\tArtifactType: m.ArtifactType,\n\t\t\t\tSize:         int64(len(mRaw)),\n\t\t\t\tDigest:       d,\n\t\t\t\tAnnotations:  m.Annotations,\n\t\t\t}\n\t\t}\n\tdefault:", "\t\tif m.Subject != nil && m.Subject.Digest != \"\" && *s.conf.API.Referrer.Enabled && m.ArtifactType == \"\" {\n\t\t\tsubject = m.Subject.Digest\n\t\t\treferrer = &types.Descriptor{\n\t\t\t\tMediaType:    mt,\n\t\t\t\tArtifactType: m.ArtifactType,\n\t\t\t\tSize:         int64(len(mRaw)),\n\t\t\t\tDigest:       d,\n\t\t\t\tAnnotations:  m.Annotations,\n\t\t\t}\n\t\t}\n\tdefault:"),
 "c08-state-check-dropped": ("C08", "blob.go", "\t\tif stateIn.Offset != bc.Size() {\n\t\t\tw.WriteHeader(http.StatusBadRequest)\n\t\t\t_ = types.ErrRespJSON(w, types.ErrInfoBlobUploadInvalid(\"invalid state\"))\n\t\t\ts.log.Error(\"invalid state size\", \"repo\", repoStr, \"sessionID\", sessionID, \"state\", r.URL.Query().Get(\"state\"), \"sizeState\", stateIn.Offset, \"sizeCur\", bc.Size())\n\t\t\treturn\n\t\t}\n\t\t// write bytes to blob", "\t\tif stateIn.Offset > bc.Size() {\n\t\t\tw.WriteHeader(http.StatusBadRequest)\n\t\t\t_ = types.ErrRespJSON(w, types.ErrInfoBlobUploadInvalid(\"invalid state\"))\n\t\t\ts.log.Error(\"invalid state size\", \"repo\", repoStr, \"sessionID\", sessionID, \"state\", r.URL.Query().Get(\"state\"), \"sizeState\", stateIn.Offset, \"sizeCur\", bc.Size())\n\t\t\treturn\n\t\t}\n\t\t// write bytes to blob"),
 "c08-temp-not-removed-on-cancel": ("C08", "internal/store/dir.go", "\t_ = os.Remove(dru.filename)\n\t// Update dr.timeMod", "\tif dru.size == 0 {\n\t\t_ = os.Remove(dru.filename)\n\t}\n\t// Update dr.timeMod"),
 "c09-index-written-in-place": ("C09", "internal/store/dir.go", "\tfh, err := os.CreateTemp(dr.path, \"index.json.*\")\n\tif err != nil {\n\t\treturn err\n\t}\n\tdefer fh.Close()", "\tfh, err := os.Create(filepath.Join(dr.path, indexFile))\n\tif err != nil {\n\t\treturn err\n\t}\n\tdefer fh.Close()"),
 "c10-exists-not-reset": ("C10", "internal/store/dir.go", "\t\tif errDir == nil {\n\t\t\tdr.exists = false\n\t\t}", "\t\tif errDir == nil && false {\n\t\t\tdr.exists = false\n\t\t}"),
 "c11-referrer-lock-dropped": ("C11", "referrer.go", "func (s *Server) referrerAdd(repo store.Repo, subject digest.Digest, desc types.Descriptor) error {\n\ts.muReferrer.Lock()\n\tdefer s.muReferrer.Unlock()", "func (s *Server) referrerAdd(repo store.Repo, subject digest.Digest, desc types.Descriptor) error {"),
 "c12-delete-takes-repo-lock-synchronously": ("C12", "internal/store/dir.go", "\tgo func() {\n\t\tdru.dr.mu.Lock()\n\t\tdru.dr.timeMod = time.Now()", "\tfunc() {\n\t\tdru.dr.mu.Lock()\n\t\tdru.dr.timeMod = time.Now()"),
 "c13-mem-index-insert-without-lock": ("C13", "internal/store/mem.go", "\tmr.mu.Lock()\n\tmr.timeMod = time.Now()\n\tmr.index.AddDesc(desc, opts...)\n\tmr.mu.Unlock()", "\tmr.timeMod = time.Now()\n\tmr.mu.Lock()\n\tmr.index.AddDesc(desc, opts...)\n\tmr.mu.Unlock()"),
 "c14-readonly-guard-removed": ("C14", "internal/store/dir.go", "func (dr *dirRepo) IndexRemove(desc types.Descriptor) error {\n\tif *dr.conf.Storage.ReadOnly {\n\t\treturn types.ErrReadOnly\n\t}", "func (dr *dirRepo) IndexRemove(desc types.Descriptor) error {"),
 "c15-page-index-unchecked": ("C15", "referrer.go", "\t\tif page < 0 {\n\t\t\tpage = 0\n\t\t}", "\t\tif page < -1 {\n\t\t\tpage = 0\n\t\t}"),
 "c16-session-lookup-in-any-repo": ("C16", "internal/store/mem.go", "func (mr *memRepo) BlobSession(sessionID string) (BlobCreator, error) {\n\tmr.mu.Lock()\n\tdefer mr.mu.Unlock()\n\tif bc, err := mr.uploads.Get(sessionID); err == nil {\n\t\treturn bc, nil\n\t}", "func (mr *memRepo) BlobSession(sessionID string) (BlobCreator, error) {\n\tmr.mu.Lock()\n\tdefer mr.mu.Unlock()\n\tif bc, err := mr.uploads.Get(sessionID); err == nil {\n\t\treturn bc, nil\n\t}\n\tif bc, ok := memAllUploads[sessionID]; ok {\n\t\treturn bc, nil\n\t}"),
 "c17-fallback-tag-kept-response-dropped": ("C17", "internal/store/store.go", "\t\t\t\tindex.AddDesc(newDesc)\n\t\t\t\tmod = true", "\t\t\t\tif len(curResp.Manifests) < 2 {\n\t\t\t\t\tindex.AddDesc(newDesc)\n\t\t\t\t}\n\t\t\t\tmod = true"),
 "c18-copy-shares-annotations": ("C18", "types/descriptor.go", "\tif d.Annotations != nil {\n\t\td2.Annotations = make(map[string]string)\n\t\tfor k, v := range d.Annotations {\n\t\t\td2.Annotations[k] = v\n\t\t}\n\t}", "\tif d.Annotations != nil && len(d.Annotations) > 1 {\n\t\td2.Annotations = make(map[string]string)\n\t\tfor k, v := range d.Annotations {\n\t\t\td2.Annotations[k] = v\n\t\t}\n\t}"),
 "c19-flag-wired-to-wrong-field": ("C19", "cmd/olareg/serve.go", "ReferrersDangling: &opts.gcRefDangling,", "ReferrersDangling: &opts.gcUntagged,"),
 "c19-window-never-reset": ("C19", "olareg.go", "\t\t\tif now.Sub(limit.first) > time.Second {", "\t\t\tif now.Sub(limit.first) > time.Second*5 {"),
 "c20-delete-before-callback": ("C20", "internal/cache/cache.go", "\t\t\t\terr := c.pruneFn(key, c.entries[key].value)\n\t\t\t\tif c.prunePostFn != nil {\n\t\t\t\t\tc.prunePostFn(key, c.entries[key].value)\n\t\t\t\t}\n\t\t\t\tif err != nil {\n\t\t\t\t\tc.entries[key].used = now\n\t\t\t\t\tcontinue\n\t\t\t\t}", "\t\t\t\terr := c.pruneFn(key, c.entries[key].value)\n\t\t\t\tif c.prunePostFn != nil {\n\t\t\t\t\tc.prunePostFn(key, c.entries[key].value)\n\t\t\t\t}\n\t\t\t\tif err != nil && len(c.entries) < 2 {\n\t\t\t\t\tc.entries[key].used = now\n\t\t\t\t\tcontinue\n\t\t\t\t}"),
 "c20-lru-reversed": ("C20", "internal/cache/cache.go", "return c.entries[a].used.Before(c.entries[b].used)", "return c.entries[a].used.After(c.entries[b].used)"),
}
# the c16 mutant needs a global map filled at creation
EXTRA = {
 "c16-session-lookup-in-any-repo": [("internal/store/mem.go", "\tmr.timeMod = time.Now()\n\tmr.uploads.Set(sessionID, bc)\n\treturn bc, sessionID, nil", "\tmr.timeMod = time.Now()\n\tmr.uploads.Set(sessionID, bc)\n\tmemAllUploads[sessionID] = bc\n\treturn bc, sessionID, nil"),
                                    ("internal/store/mem.go", "type memRepoBlob struct {", "var memAllUploads = map[string]*memRepoUpload{}\n\ntype memRepoBlob struct {")],
}

def sh(cmd, cwd=None, env=ENV, timeout=1800):
    p = subprocess.run(cmd, shell=True, cwd=cwd, env=env, capture_output=True, text=True, timeout=timeout)
    return p.returncode, p.stdout + p.stderr

def run(name, suite):
    prop, f, old, new = M[name]
    wt = "/dev/shm/verif-mut-" + name
    bd = "/dev/shm/verif-mutb-" + name
    sh("git -C /repo worktree remove --force %s 2>/dev/null; rm -rf %s %s" % (wt, wt, bd))
    rc, out = sh("git -C /repo worktree add -q --detach %s HEAD" % wt)
    if rc != 0:
        return name, prop, "worktree failed: " + out
    try:
        edits = [(f, old, new)] + EXTRA.get(name, [])
        for (ff, o, n) in edits:
            p = os.path.join(wt, ff)
            s = open(p).read()
            if s.count(o) != 1:
                return name, prop, "PATTERN NOT FOUND (%d) in %s" % (s.count(o), ff)
            open(p, "w").write(s.replace(o, n))
        rc, out = sh("go build ./...", cwd=wt)
        if rc != 0:
            return name, prop, "does not compile: " + out[-400:]
        st = ""
        if suite:
            rc, out = sh("go test -vet=off -count=1 ./... 2>&1 | grep -E '^(FAIL|---)' | head -5", cwd=wt)
            st = " suite:" + ("FAILS " + out.strip().replace("\n", " ")[:120] if out.strip() else "passes")
        env = dict(ENV, VERIF_REPO=wt, VERIF_BUILD=bd, VERIF_OUT=bd + "/out")
        rc, out = sh("/verif/run %s quick" % prop, cwd="/verif", env=env)
        viol = [l for l in out.split("\n") if l.startswith("VIOLATION property=" + prop)]
        sigs = [l.split("sig=")[1].split(" conf=")[0] for l in out.split("\n") if " sig=" in l][:3]
        res = ("CAUGHT (%d) %s" % (len(viol), sigs)) if viol and rc == 1 else ("MISSED rc=%d %s" % (rc, out.strip().split("\n")[-1][:160]))
        return name, prop, res + st
    finally:
        sh("git -C /repo worktree remove --force %s; rm -rf %s %s" % (wt, wt, bd))

if __name__ == "__main__":
    args = [a for a in sys.argv[1:] if not a.startswith("--")]
    suite = "--suite" in sys.argv
    names = args or sorted(M)
    for n in names:
        print("%-45s %s  %s" % run(n, suite), flush=True)
