package checks

import (
	"fmt"
	"strings"
	"time"

	"github.com/olareg/olareg/config"
	"github.com/olareg/olareg/internal/verif/h"
	"github.com/olareg/olareg/types"
)

// C02 — acknowledged pushes read back byte-identical until deleted or collected; oversize manifests are refused.

func c02Fix() *Fix {
	f := StdFix()
	f.Blob("b0", "application/octet-stream", []byte(""))
	f.Blob("b4", "application/octet-stream", []byte("abcd"))
	f.Blob("dc", types.MediaTypeDocker2ImageConfig, []byte(`{"docker":true}`))
	f.Image("D1", types.MediaTypeDocker2Manifest, "dc", []string{"l1"}, "", "", nil)
	f.Index("DL", types.MediaTypeDocker2ManifestList, []string{"D1"}, "", "", nil)
	// P: the longest valid manifest of the universe; the limit sits two bytes above it
	f.Image("P", mtImg, "c", []string{"l1"}, "", "", map[string]string{"pad": strings.Repeat("p", 120)})
	for k := 1; k <= 4; k++ {
		f.Raw(fmt.Sprintf("Pp%d", k), f.Items["P"], append(append([]byte{}, f.Items["P"].Data...), []byte(strings.Repeat(" ", k))...))
	}
	// an index that lists I1 with an inaccurate size (sizes in a pushed index are the client's claim, nothing checks them):
	// what is served for I1 stays I1's own bytes and length
	bad := strings.Replace(string(h.Index(mtIdx, []h.Desc{f.Items["I1"].Desc()}, nil, "", map[string]string{"claims": "a wrong size"})), fmt.Sprintf(`"size":%d`, len(f.Items["I1"].Data)), fmt.Sprintf(`"size":%d`, len(f.Items["I1"].Data)+7), 1)
	xb := f.Raw("Xbad", f.Items["X"], []byte(bad))
	xb.MT, xb.Children = mtIdx, []string{"I1"}
	return f
}

var c02Types = []string{types.MediaTypeOCI1Manifest, types.MediaTypeOCI1ManifestList, types.MediaTypeDocker2Manifest, types.MediaTypeDocker2ManifestList}

func c02Specs(tier string) []*h.SeqSpec {
	f := c02Fix()
	const repo = "r"
	limit := int64(len(f.Items["P"].Data) + 2)
	tags := []string{"t1", "t2"}
	items := []string{"b0", "b4", "I1", "I2", "D1", "DL", "X2", "X", "Y", "Xbad", "P", "Pp1", "Pp2", "Pp3", "Pp4"}
	var specs []*h.SeqSpec
	for _, store := range []string{"mem", "dir"} {
		store := store
		var ops []h.Op
		ops = append(ops, opPushBlob("C02", repo, f, "b0"), opPushBlob("C02", repo, f, "b4"))
		for _, n := range []string{"I1", "I2"} {
			for _, t := range []string{"t1", "t2", ""} {
				ops = append(ops, opPushMan("C02", repo, f, n, t))
			}
		}
		ops = append(ops, opPushMan("C02", repo, f, "D1", "t1"), opPushMan("C02", repo, f, "DL", ""), opPushMan("C02", repo, f, "X2", "t2"), opPushMan("C02", repo, f, "Xbad", ""))
		// a nested index pushed completely (children by digest, untagged): its grandchildren are only reachable through two levels
		ops = append(ops, h.Op{Name: "push nested index Y completely as t1", Do: func(w *h.World) []h.Violation { return gcPushMacro(w, f, repo, "Y", "t1") }})
		pads := []int{2, 3}
		if tier == "thorough" {
			pads = []int{1, 2, 3, 4}
		}
		for _, k := range pads {
			for _, unknown := range []bool{false, true} {
				k, unknown := k, unknown
				name := fmt.Sprintf("Pp%d", k)
				ul := "known"
				if unknown {
					ul = "unknown"
				}
				ops = append(ops, h.Op{Name: fmt.Sprintf("push %s (limit%+d, %s length) as t2", name, int64(len(f.Items[name].Data))-limit, ul), Do: func(w *h.World) []h.Violation {
					it := f.Items[name]
					m := regM(w).Repo(repo)
					r := w.Do(h.Req{Method: "PUT", Path: "/v2/" + repo + "/manifests/t2", Body: it.Data, UnknownLen: unknown, Header: map[string]string{"Content-Type": it.MT}})
					over := int64(len(it.Data)) > limit
					if over {
						if r.Status < 400 || r.Status >= 500 {
							// what was stored instead?
							stored := f.ByDigest(r.H.Get("Docker-Content-Digest"))
							if stored != nil {
								m.PushManifest(stored, "t2") // keep the model in step with what the server acknowledged
							}
							return []h.Violation{h.V("oversize-manifest-refused", "oversize-manifest-accepted:"+ul+"-length", "manifest of %d bytes (limit %d, %s Content-Length) answered %s", len(it.Data), limit, ul, r)}
						}
						return nil
					}
					if r.Status != 201 {
						return []h.Violation{h.V("push-acknowledged", "valid-push-refused", "manifest of %d bytes (limit %d) answered %s", len(it.Data), limit, r)}
					}
					m.PushManifest(it, "t2")
					return nil
				}})
			}
		}
		for _, t := range tags {
			ops = append(ops, opDeleteTag("C02", repo, t))
		}
		ops = append(ops, opDeleteMan("C02", repo, f, "I1"), opDeleteMan("C02", repo, f, "I2"), opDeleteMan("C02", repo, f, "X2"))
		// a docker manifest list over an untagged docker image: deleting the list by digest leaves the image
		ops = append(ops, opPushMan("C02", repo, f, "D1", ""), opDeleteMan("C02", repo, f, "DL"))
		ops = append(ops, h.Op{Name: "delete blob b4", Do: func(w *h.World) []h.Violation {
			m := regM(w).Repo(repo)
			r := w.Delete("/v2/" + repo + "/blobs/" + f.Items["b4"].Dig)
			_, had := m.Cas["b4"]
			delete(m.Cas, "b4")
			if had && r.Status != 202 {
				return []h.Violation{h.V("delete-acknowledged", "blob-delete-refused", "delete of present blob answered %s", r)}
			}
			return nil
		}})
		if store == "dir" {
			ops = append(ops, h.Op{Name: "restart", Do: func(w *h.World) []h.Violation {
				if vs := closeViolation(w.Reopen()); vs != nil {
					return vs
				}
				regM(w).Repo(repo).AfterCollection(f)
				return nil
			}})
		}
		depth := 4
		if tier == "thorough" {
			depth = 6
		}
		specs = append(specs, &h.SeqSpec{
			Name: "c02-" + store,
			Conf: &h.Conf{Name: store, Store: store, Mod: func(c *config.Config) { c.API.Manifest.Limit = limit }},
			Init: func(w *h.World) {
				m := NewMRegFix(f)
				w.M = m
				r := m.Repo(repo)
				for _, b := range []string{"c", "l1", "l2", "dc"} {
					mustStatus(w.PushBlob(repo, f.Items[b].Data, f.Items[b].Dig), 201)
					r.PushBlob(b)
				}
			},
			Ops:   ops,
			Model: func(w *h.World) string { return regM(w).String() },
			Probe: func(w *h.World) []h.Violation {
				m := regM(w).Repo(repo)
				vs := DiffModel(w, f, m, DiffOpts{Repo: repo, Items: items, Tags: tags, Head: true, NoAbsence: true})
				// every Accept list that contains the stored type
				for _, n := range items {
					it := f.Items[n]
					if _, ok := m.Mans[n]; !ok || !it.Manifest || m.Limbo[n] || m.Orphan[n] {
						continue
					}
					for mask := 1; mask < 16; mask++ {
						var acc []string
						has := false
						for i, t := range c02Types {
							if mask&(1<<i) != 0 {
								acc = append(acc, t)
								if t == m.ManMT[n] {
									has = true
								}
							}
						}
						if !has {
							// an Accept list without the stored type may be refused, but a pull by digest never serves other content
							r := w.Get("/v2/"+repo+"/manifests/"+it.Dig, "Accept", strings.Join(acc, ", "))
							if r.Status == 200 && (string(r.Body) != string(it.Data) || (r.H.Get("Docker-Content-Digest") != "" && r.H.Get("Docker-Content-Digest") != it.Dig)) {
								vs = append(vs, h.V("digest-pull-serves-that-digest", "other-content-served-under-digest", "%s (%s, stored as %s) pulled by digest with Accept %v answered with other content: %s", n, short(it.Dig), m.ManMT[n], acc, r))
							}
							continue
						}
						r := w.Get("/v2/"+repo+"/manifests/"+it.Dig, "Accept", strings.Join(acc, ", "))
						if r.Status != 200 || r.H.Get("Content-Type") != m.ManMT[n] || string(r.Body) != string(it.Data) {
							vs = append(vs, h.V("accept-list", "accept-list-not-honoured", "%s pushed as %s, GET with Accept %v answered %s", n, m.ManMT[n], acc, r))
						}
					}
				}
				// byte ranges
				rng := func(what, path string, data []byte) {
					n := len(data)
					var specs [][3]int // kind, a, b
					for a := 0; a < n; a++ {
						for b := a; b < n; b++ {
							specs = append(specs, [3]int{0, a, b})
						}
						specs = append(specs, [3]int{1, a, 0})
					}
					for k := 1; k <= n; k++ {
						specs = append(specs, [3]int{2, k, 0})
					}
					for _, sp := range specs {
						var hdr string
						var lo, hi int
						switch sp[0] {
						case 0:
							hdr, lo, hi = fmt.Sprintf("bytes=%d-%d", sp[1], sp[2]), sp[1], sp[2]
						case 1:
							hdr, lo, hi = fmt.Sprintf("bytes=%d-", sp[1]), sp[1], n-1
						case 2:
							hdr, lo, hi = fmt.Sprintf("bytes=-%d", sp[1]), n-sp[1], n-1
						}
						r := w.Get(path, append([]string{"Range", hdr}, h.AllAccept...)...)
						if r.Status != 206 || string(r.Body) != string(data[lo:hi+1]) || r.H.Get("Content-Range") != fmt.Sprintf("bytes %d-%d/%d", lo, hi, n) {
							vs = append(vs, h.V("byte-range", "range-wrong", "%s with Range %s answered %s, want 206 %q", what, hdr, r, data[lo:hi+1]))
						}
					}
				}
				if _, ok := m.Cas["b4"]; ok {
					rng("blob b4", "/v2/"+repo+"/blobs/"+f.Items["b4"].Dig, f.Items["b4"].Data)
				}
				if _, ok := m.Mans["I1"]; ok && tier == "thorough" {
					d := f.Items["I1"].Data
					for _, hdr := range []string{"bytes=0-0", "bytes=5-9", fmt.Sprintf("bytes=%d-", len(d)-3), "bytes=-4"} {
						r := w.Get("/v2/"+repo+"/manifests/"+f.Items["I1"].Dig, append([]string{"Range", hdr}, h.AllAccept...)...)
						if r.Status != 206 {
							vs = append(vs, h.V("byte-range", "range-wrong", "manifest I1 with Range %s answered %s", hdr, r))
						}
					}
				}
				// no prefix of a refused oversize body became retrievable: the cut body would be I1 + 2 spaces = I1p2
				return vs
			},
			NonTriv:  func(w *h.World) bool { m := regM(w).Repo(repo); return len(m.Mans) > 0 || len(m.Cas) > 4 },
			MaxDepth: depth,
		})
	}
	return specs
}

func init() {
	h.RegisterSeq(&h.SeqCheck{
		ID:    "C02",
		Level: "model_checking",
		Rule: "breadth-first search over all histories (bounded depth) of blob pushes (0 and 4 bytes), manifest pushes by tag / digest (OCI and Docker image and index types), re-pushes, tag moves, bodies at and beyond Manifest.Limit with known and unknown Content-Length, tag / digest / blob deletes and restart, both stores; " +
			"in every distinct state every item is read by digest and tag with GET and HEAD, with all 15 Accept subsets that contain its type and all byte ranges of a 4 byte blob, and compared with the model; non-trivial = a manifest or extra blob present",
		Assume: []string{"Manifest.Limit = length of the longest valid manifest of the universe + 2", "absence after a delete is not part of this property (C03 demands it for tags and digests)", "restart on the directory store collects with the default policy: artifacts whose subject is gone are left open"},
		Specs:  func(tier string) []*h.SeqSpec { return append(c02Specs(tier), nestedSpecs(tier)...) },
		Budget: func(tier string) time.Duration {
			if tier == "thorough" {
				return 12 * time.Minute
			}
			return 110 * time.Second
		},
	})
}
