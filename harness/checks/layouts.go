package checks

import (
	"encoding/json"
	"fmt"
	"os"
	"path/filepath"
	"strings"

	"github.com/opencontainers/go-digest"

	"github.com/olareg/olareg/internal/verif/h"
	"github.com/olareg/olareg/internal/verif/vrt"
	"github.com/olareg/olareg/types"
)

// Directory layouts written by the harness (not through the API): for C14 (read-only) and C17 (conversion).

type Layout struct {
	Blobs     map[string][]byte // digest -> content
	Entries   []h.Desc          // index.json manifests
	Ann       map[string]string // index.json annotations
	RawIndex  []byte            // if set, written instead of the marshalled index
	OCILayout *string           // nil = standard; "" = no file
}

func NewLayout() *Layout {
	return &Layout{Blobs: map[string][]byte{}}
}

func (l *Layout) AddItem(it *Item) { l.Blobs[it.Dig] = it.Data }

func (l *Layout) AddBlob(b []byte) h.Desc {
	d := digest.Canonical.FromBytes(b)
	l.Blobs[d.String()] = b
	return h.Desc{Digest: d, Size: int64(len(b))}
}

func (l *Layout) Entry(it *Item, ann map[string]string) {
	d := it.Desc()
	d.Annotations = ann
	l.Entries = append(l.Entries, d)
}

func (l *Layout) Write(dir string) {
	must := func(err error) {
		if err != nil {
			panic(err)
		}
	}
	must(os.MkdirAll(dir, 0o755))
	for dg, b := range l.Blobs {
		alg, hx, _ := strings.Cut(dg, ":")
		must(os.MkdirAll(filepath.Join(dir, "blobs", alg), 0o755))
		must(os.WriteFile(filepath.Join(dir, "blobs", alg, hx), b, 0o644))
	}
	idx := l.RawIndex
	if idx == nil {
		i := types.Index{SchemaVersion: 2, MediaType: mtIdx, Manifests: l.Entries, Annotations: l.Ann}
		if i.Manifests == nil {
			i.Manifests = []h.Desc{}
		}
		var err error
		idx, err = json.Marshal(i)
		must(err)
		idx = append(idx, '\n')
	}
	must(os.WriteFile(filepath.Join(dir, "index.json"), idx, 0o644))
	ol := `{"imageLayoutVersion":"1.0.0"}`
	if l.OCILayout != nil {
		ol = *l.OCILayout
	}
	if ol != "" {
		must(os.WriteFile(filepath.Join(dir, "oci-layout"), []byte(ol), 0o644))
	}
	// the files are as old as the (virtual) instant they are written at, not as the real clock says
	if vrt.IsControlled() {
		now := vrt.Now()
		_ = filepath.Walk(dir, func(p string, fi os.FileInfo, err error) error {
			if err == nil && !fi.IsDir() {
				_ = os.Chtimes(p, now, now)
			}
			return nil
		})
	}
}

func fallbackTag(subjectDigest string) string {
	t := strings.Replace(subjectDigest, ":", "-", 1)
	if len(t) > 128 {
		t = t[:128] // a tag holds at most 128 characters: the digest is truncated (sha512)
	}
	return t
}

func tagAnn(t string) map[string]string { return map[string]string{types.AnnotRefName: t} }

// baseImageLayout: c, l1, I1 tagged t; l2, I2 untagged.
func baseImageLayout(f *Fix) *Layout {
	l := NewLayout()
	for _, n := range []string{"c", "l1", "l2", "e", "I1", "I2"} {
		l.AddItem(f.Items[n])
	}
	l.Entry(f.Items["I1"], tagAnn("t"))
	l.Entry(f.Items["I2"], nil)
	return l
}

// convertedLayout: as the registry itself writes it (response blob + subject annotation + convert marker).
func convertedLayout(f *Fix) *Layout {
	l := baseImageLayout(f)
	l.AddItem(f.Items["A1"])
	resp := h.Index(mtIdx, []h.Desc{refDesc(f.Items["A1"])}, nil, "", nil)
	rd := l.AddBlob(resp)
	rd.MediaType = mtIdx
	rd.Annotations = map[string]string{types.AnnotReferrerSubject: f.Items["I1"].Dig}
	l.Entries = append(l.Entries, rd)
	l.Ann = map[string]string{types.AnnotReferrerConvert: "true"}
	return l
}

// legacyLayout: referrers kept with the fallback tag scheme. mode: "accurate" or "stale" (wrong size in the
// fallback index, so that the response must be regenerated).
func legacyLayout(f *Fix, mode string) *Layout {
	l := baseImageLayout(f)
	l.AddItem(f.Items["A1"])
	l.Entry(f.Items["A1"], nil)
	d := refDesc(f.Items["A1"])
	if mode == "stale" {
		d.Size += 7
	}
	fb := h.Index(mtIdx, []h.Desc{d}, nil, "", nil)
	fd := l.AddBlob(fb)
	fd.MediaType = mtIdx
	fd.Annotations = tagAnn(fallbackTag(f.Items["I1"].Dig))
	l.Entries = append(l.Entries, fd)
	return l
}

type layoutKind struct {
	Name  string
	Write func(root string, f *Fix)
}

func c14Layouts(f *Fix) []layoutKind {
	empty := ""
	other := `{"imageLayoutVersion":"2.0.0"}`
	return []layoutKind{
		{"converted", func(root string, f *Fix) { convertedLayout(f).Write(filepath.Join(root, "r")) }},
		{"legacy-accurate", func(root string, f *Fix) { legacyLayout(f, "accurate").Write(filepath.Join(root, "r")) }},
		{"legacy-stale", func(root string, f *Fix) { legacyLayout(f, "stale").Write(filepath.Join(root, "r")) }},
		{"index-unparsable", func(root string, f *Fix) {
			l := baseImageLayout(f)
			l.RawIndex = []byte("{ this is not json")
			l.Write(filepath.Join(root, "r"))
		}},
		{"no-oci-layout", func(root string, f *Fix) {
			l := baseImageLayout(f)
			l.OCILayout = &empty
			l.Write(filepath.Join(root, "r"))
		}},
		{"other-layout-version", func(root string, f *Fix) {
			l := baseImageLayout(f)
			l.OCILayout = &other
			l.Write(filepath.Join(root, "r"))
		}},
		{"entry-without-blob", func(root string, f *Fix) {
			l := baseImageLayout(f)
			delete(l.Blobs, f.Items["I2"].Dig)
			l.Write(filepath.Join(root, "r"))
		}},
		{"nested", func(root string, f *Fix) {
			baseImageLayout(f).Write(filepath.Join(root, "r"))
			convertedLayout(f).Write(filepath.Join(root, "r", "n"))
		}},
		{"file-for-directory", func(root string, f *Fix) {
			baseImageLayout(f).Write(filepath.Join(root, "r"))
			_ = os.WriteFile(filepath.Join(root, "new"), []byte("a file where a repository would go"), 0o644)
			_ = os.RemoveAll(filepath.Join(root, "r", "blobs", "sha512"))
			_ = os.WriteFile(filepath.Join(root, "r", "blobs", "sha512"), []byte("file"), 0o644)
		}},
		{"empty-root", func(root string, f *Fix) {}},
	}
}

func copyTree(src, dst string) {
	_ = filepath.Walk(src, func(p string, fi os.FileInfo, err error) error {
		if err != nil {
			return nil
		}
		rel, _ := filepath.Rel(src, p)
		t := filepath.Join(dst, rel)
		if fi.IsDir() {
			_ = os.MkdirAll(t, 0o755)
			return nil
		}
		b, err := os.ReadFile(p)
		if err == nil {
			_ = os.WriteFile(t, b, fi.Mode().Perm())
			_ = os.Chtimes(t, fi.ModTime(), fi.ModTime())
		}
		return nil
	})
}

var _ = fmt.Sprint

func readIndexFile(dir string) (types.Index, error) {
	var idx types.Index
	b, err := os.ReadFile(filepath.Join(dir, "index.json"))
	if err != nil {
		return idx, err
	}
	err = json.Unmarshal(b, &idx)
	return idx, err
}

func jsonUnmarshal(b []byte, v any) error { return json.Unmarshal(b, v) }
