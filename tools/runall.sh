#!/bin/bash
# runs every registered check of the given tier and prints one line per check
cd "$(dirname "$0")/.."
tier="${1:-quick}"
for id in $(jq -r '.checks[].property_id' MANIFEST.json); do
  start=$(date +%s)
  out=$(./run "$id" "$tier" 2>&1); rc=$?
  end=$(date +%s)
  echo "$id rc=$rc $((end-start))s $(echo "$out" | grep -c '^VIOLATION') violations, $(echo "$out" | grep -c '^KNOWN-FINDING') known | $(echo "$out" | tail -1 | cut -c1-160)"
done
python3 tools/evcheck.py | grep -v "^OK" ; true
