//go:build verif

package main

import (
	"context"
	"os"

	"github.com/spf13/cobra"

	"github.com/olareg/olareg"
	"github.com/olareg/olareg/config"
	"github.com/olareg/olareg/internal/verif/c19"
)

// Injected by the verification overlay (never part of the repository): with VERIF_C19 set the binary runs the
// configuration-space check in-process instead of the command line.
func init() {
	if os.Getenv("VERIF_C19") != "" {
		os.Exit(c19.Main(func() *cobra.Command { return newRootCmd() }))
	}
}

func verifNew(conf config.Config) *olareg.Server {
	s := olareg.New(conf)
	c19.Capture(s, conf)
	return s
}

func verifRun(s *olareg.Server, ctx context.Context) error {
	c19.BeforeRun()
	return s.Run(ctx)
}
