#!/bin/bash
# tools/seedall.sh [tier] [dir ...]: for every stored seeded change (seeded/<dir>/patch.diff + meta.json) apply the patch to a
# fresh scratch worktree of /repo HEAD (outside /repo and /verif), run the checks named in meta.json "check" against it,
# undo (remove the worktree and its build output) and write one line per change to seeded/RESULTS.tsv.
cd "$(dirname "$0")/.."
tier="${1:-quick}"; shift
dirs="${@:-$(ls seeded | grep -v RESULTS)}"
res=seeded/RESULTS.tsv
tmp=$(mktemp)
for d in $dirs; do
  [ -f seeded/$d/patch.diff ] || continue
  wt=/dev/shm/seedrun-$d
  git -C /repo worktree remove --force $wt 2>/dev/null; rm -rf $wt
  git -C /repo worktree add -q --detach $wt HEAD || { echo "$d: cannot create worktree"; continue; }
  if ! git -C $wt apply /verif/seeded/$d/patch.diff 2>/dev/null; then
    echo -e "$d\t-\tpatch-does-not-apply\t0" | tee -a $tmp
    git -C /repo worktree remove --force $wt; rm -rf $wt; continue
  fi
  caught=""; total=0
  for c in $(jq -r '.check[]' seeded/$d/meta.json); do
    out=$(VERIF_REPO=$wt VERIF_BUILD=/dev/shm/vb-$d VERIF_OUT=/dev/shm/vb-$d/out ./run $c $tier 2>&1); rc=$?
    n=$(echo "$out" | grep -c '^VIOLATION')
    total=$((total+n))
    sigs=$(echo "$out" | grep -o 'sig=[^ ]*' | sort -u | head -3 | sed 's/sig=//' | paste -sd',')
    [ $rc -eq 1 ] && caught="$caught $c($n: $sigs)"
    [ $rc -ge 2 ] && caught="$caught $c(INFRA rc=$rc)"
  done
  status=caught; [ -z "$caught" ] && status=MISSED
  echo -e "$d\t$tier\t$status\t$total\t$caught" | tee -a $tmp
  git -C /repo worktree remove --force $wt; rm -rf $wt /dev/shm/vb-$d
done
git -C /repo worktree prune
{ echo -e "change\ttier\tresult\tviolations\tchecks (count: first signatures)"; cat $tmp; } > $res.new
if [ $# -eq 0 ]; then mv $res.new $res; else cat $res.new; rm $res.new; fi
rm -f $tmp
