package checks

import (
	"errors"
	"fmt"
	"sort"
	"strings"
	"time"

	"github.com/olareg/olareg/internal/cache"
	"github.com/olareg/olareg/internal/verif/h"
	"github.com/olareg/olareg/internal/verif/vrt"
	"github.com/olareg/olareg/internal/verif/vsync"
)

// C20 — the bounded cache never drops an entry without its cleanup.

type cval struct {
	id int
	mu vsync.Mutex
}

type cevent struct {
	key  string
	id   int
	ok   bool
	at   int64
	from string // which operation was running on the harness side
}

type c20World struct {
	c       *cache.Cache[string, *cval]
	age     time.Duration
	count   int
	fail    map[string]bool
	nextID  int
	log     []cevent
	cur     string
	vals    map[int]*cval
	keyOf   map[int]string
	present map[string]int   // model: key -> value id
	lastUse map[string]int64 // model: key -> last client use
	over    map[int]bool     // value ids that were overwritten by a later Set of the same key
	// lruOpen: keys whose cleanup failed since their last client use. The statement keeps such an entry but does not
	// say where it stands in the eviction order afterwards (the implementation treats the failure as a use).
	lruOpen map[string]bool
}

func newC20(age time.Duration, count int, hooks bool) *c20World {
	cw := &c20World{age: age, count: count, fail: map[string]bool{}, vals: map[int]*cval{}, keyOf: map[int]string{}, present: map[string]int{}, lastUse: map[string]int64{}, over: map[int]bool{}, lruOpen: map[string]bool{}}
	opts := cache.Opts[string, *cval]{
		Age:   age,
		Count: count,
		PruneFn: func(k string, v *cval) error {
			ok := !cw.fail[k]
			cw.log = append(cw.log, cevent{key: k, id: v.id, ok: ok, at: vrt.NowNanos(), from: cw.cur})
			if !ok {
				cw.lruOpen[k] = true
				return errors.New("cleanup failed")
			}
			return nil
		},
	}
	if hooks {
		opts.PrunePreFn = func(_ string, v *cval) { v.mu.Lock() }
		opts.PrunePostFn = func(_ string, v *cval) { v.mu.Unlock() }
	}
	cw.c = cache.New[string, *cval](opts)
	return cw
}

func (cw *c20World) set(k string) *cval {
	cw.nextID++
	v := &cval{id: cw.nextID}
	cw.vals[v.id] = v
	cw.keyOf[v.id] = k
	cw.c.Set(k, v)
	return v
}

func (cw *c20World) minCount() int {
	m := int(float64(cw.count) * 0.9)
	if cw.count > 0 && m < 1 {
		m = 1
	}
	return m
}

// contents reads what the cache holds through its API.
func (cw *c20World) contents() map[string]int {
	out := map[string]int{}
	keys, _ := cw.c.List()
	for _, k := range keys {
		// Get refreshes the last use: read the value without touching it is not possible through the API,
		// so membership comes from List and the value identity from the model + log
		out[k] = -1
	}
	return out
}

func (cw *c20World) modelString() string {
	var parts []string
	for _, k := range h.SortedKeys(cw.present) {
		parts = append(parts, fmt.Sprintf("%s=%d@%d", k, cw.present[k], cw.lastUse[k]-vrt.NowNanos()))
	}
	for _, k := range h.SortedKeys(cw.fail) {
		if cw.fail[k] {
			parts = append(parts, "fail:"+k)
		}
	}
	for _, k := range h.SortedKeys(cw.lruOpen) {
		if cw.lruOpen[k] {
			parts = append(parts, "open:"+k)
		}
	}
	return strings.Join(parts, ",")
}

// reconcile compares the cache with the model after an operation and applies the invariants of the statement.
// logStart: index into cw.log where this operation's callbacks start. agePrune: the callbacks came from the age timer.
func (cw *c20World) reconcile(logStart int, opName string, agePrune bool, setKey string) []h.Violation {
	var vs []h.Violation
	now := vrt.NowNanos()
	succ := map[int]bool{}
	for _, e := range cw.log[logStart:] {
		if e.ok {
			succ[e.id] = true
		}
		if agePrune && cw.age > 0 {
			if lu, ok := cw.lastUse[e.key]; ok && cw.present[e.key] == e.id && e.at-lu < int64(cw.age) {
				vs = append(vs, h.V("no-expiry-within-age", "expired-entry-used-within-age", "%s: cleanup of %s (value %d) was run by the age timer %v after its last use, Age is %v", opName, e.key, e.id, time.Duration(e.at-lu), cw.age))
			}
		}
	}
	have := cw.contents()
	// as it stands at the end of the step, before entries that left are forgotten below
	open := map[string]bool{}
	for k, v := range cw.lruOpen {
		open[k] = v
	}
	before := map[string]int{}
	for k, id := range cw.present {
		before[k] = id
	}
	for k, id := range before {
		if _, ok := have[k]; ok {
			continue
		}
		// the entry left the cache
		if !succ[id] {
			sig := "entry-dropped-without-cleanup"
			if cw.fail[k] {
				sig = "entry-dropped-although-cleanup-failed"
			}
			vs = append(vs, h.V("removal-only-after-cleanup", sig, "%s: %s (value %d) is no longer in the cache but no cleanup of it returned nil (callbacks of this step: %v)", opName, k, id, cw.log[logStart:]))
		}
		delete(cw.present, k)
		delete(cw.lastUse, k)
		delete(cw.lruOpen, k)
	}
	for k := range have {
		if _, ok := cw.present[k]; !ok {
			vs = append(vs, h.V("membership", "entry-appeared", "%s: %s is in the cache but not in the model", opName, k))
		}
	}
	// eviction order and bound after an insertion beyond the limit
	if setKey != "" && cw.count > 0 && len(before) > cw.count {
		var evicted, kept []string
		for k := range before {
			if _, ok := have[k]; ok {
				kept = append(kept, k)
			} else {
				evicted = append(evicted, k)
			}
		}
		for _, e := range evicted {
			for _, k := range kept {
				if !cw.fail[k] && !open[k] && !open[e] && cw.lastUseBefore(k, before) < cw.lastUseBefore(e, before) {
					vs = append(vs, h.V("lru-first", "eviction-not-lru", "%s: %s was evicted although %s was used less recently and its cleanup succeeds", opName, e, k))
				}
			}
		}
		// "first": within one pruning the cleanups run in the order of last use (where the uses are at different instants)
		var prev *cevent
		for i := logStart; i < len(cw.log); i++ {
			e := &cw.log[i]
			if id, ok := before[e.key]; !ok || id != e.id || open[e.key] {
				continue
			}
			if prev != nil && cw.lastUseBefore(e.key, before) < cw.lastUseBefore(prev.key, before) {
				vs = append(vs, h.V("lru-first", "cleanup-order-not-lru", "%s: the cleanup of %s ran before that of %s, which was used less recently", opName, prev.key, e.key))
			}
			prev = e
		}
		nfail := 0
		for k := range before {
			if cw.fail[k] {
				nfail++
			}
		}
		if nfail == 0 && len(have) > cw.count {
			vs = append(vs, h.V("pruned-back-to-limit", "over-limit-after-pruning", "%s: %d entries after an insertion beyond Count=%d although every cleanup succeeds", opName, len(have), cw.count))
		}
	}
	_ = now
	return vs
}

var c20UseSnapshot map[string]int64

func (cw *c20World) lastUseBefore(k string, _ map[string]int) int64 {
	if v, ok := c20UseSnapshot[k]; ok {
		return v
	}
	return cw.lastUse[k]
}

func c20SeqSpecs(tier string) []*h.SeqSpec {
	type cfg struct {
		age   time.Duration
		count int
	}
	cfgs := []cfg{{10 * time.Second, 2}, {0, 1}, {0, 2}, {0, 3}, {10 * time.Second, 0}}
	if tier == "thorough" {
		cfgs = []cfg{{0, 0}, {0, 1}, {0, 2}, {0, 3}, {10 * time.Second, 0}, {10 * time.Second, 1}, {10 * time.Second, 2}, {10 * time.Second, 3}}
	}
	var specs []*h.SeqSpec
	for _, cf := range cfgs {
		cf := cf
		keys := []string{"a", "b", "c"}
		if cf.count >= 3 {
			keys = append(keys, "d") // the limit has to be exceeded
		}
		cwOf := func(w *h.World) *c20World { return w.M.(*c20World) }
		var ops []h.Op
		step := func(name string, agePrune bool, setKey string, do func(cw *c20World) []h.Violation) {
			ops = append(ops, h.Op{Name: name, Do: func(w *h.World) []h.Violation {
				cw := cwOf(w)
				ls := len(cw.log)
				cw.cur = name
				c20UseSnapshot = map[string]int64{}
				for k, v := range cw.lastUse {
					c20UseSnapshot[k] = v
				}
				vs := do(cw)
				vrt.Quiesce()
				return append(vs, cw.reconcile(ls, name, agePrune, setKey)...)
			}})
		}
		for _, k := range keys {
			k := k
			step("Set "+k, false, k, func(cw *c20World) []h.Violation {
				if old, ok := cw.present[k]; ok {
					cw.over[old] = true
				}
				v := cw.set(k)
				cw.present[k] = v.id
				cw.lastUse[k] = vrt.NowNanos()
				delete(cw.lruOpen, k)
				c20UseSnapshot[k] = vrt.NowNanos()
				return nil
			})
			step("Get "+k, false, "", func(cw *c20World) []h.Violation {
				v, err := cw.c.Get(k)
				id, ok := cw.present[k]
				if ok != (err == nil) || (ok && v.id != id) {
					got := -1
					if v != nil {
						got = v.id
					}
					return []h.Violation{h.V("membership", "get-wrong", "Get(%s) = value %d, err %v; the model holds %v (present=%v)", k, got, err, id, ok)}
				}
				if ok {
					cw.lastUse[k] = vrt.NowNanos()
					delete(cw.lruOpen, k)
				}
				return nil
			})
			step("Delete "+k, false, "", func(cw *c20World) []h.Violation {
				err := cw.c.Delete(k)
				if _, ok := cw.present[k]; ok && cw.fail[k] && err == nil {
					return []h.Violation{h.V("failed-cleanup-reported", "delete-swallows-error", "Delete(%s) returned nil although the cleanup failed", k)}
				}
				return nil
			})
			step("toggle cleanup failure of "+k, false, "", func(cw *c20World) []h.Violation {
				cw.fail[k] = !cw.fail[k]
				return nil
			})
		}
		step("DeleteAll", false, "", func(cw *c20World) []h.Violation { _ = cw.c.DeleteAll(); return nil })
		if cf.age == 0 {
			// without an age limit time still has to pass, or all uses happen at the same instant and "least recently" is empty
			step("advance 1s", false, "", func(cw *c20World) []h.Violation {
				vrt.Advance(time.Second, false)
				return nil
			})
		}
		if cf.age > 0 {
			for _, d := range []time.Duration{cf.age / 2, cf.age, cf.age + cf.age/10 + time.Millisecond} {
				d := d
				step(fmt.Sprintf("advance %v", d), true, "", func(cw *c20World) []h.Violation {
					vrt.Advance(d, false)
					return nil
				})
			}
		}
		depth := 6
		if tier == "thorough" {
			depth = 8
		}
		specs = append(specs, &h.SeqSpec{
			Name: fmt.Sprintf("c20-seq-age%v-count%d", cf.age, cf.count),
			Init: func(w *h.World) { w.M = newC20(cf.age, cf.count, true) },
			Ops:  ops,
			Model: func(w *h.World) string {
				cw := cwOf(w)
				return cw.modelString() + "|" + h.Dump(cw.c)
			},
			Probe: func(w *h.World) []h.Violation {
				cw := cwOf(w)
				var vs []h.Violation
				keys, _ := cw.c.List()
				sort.Strings(keys)
				if !eqStrings(keys, h.SortedKeys(cw.present)) {
					vs = append(vs, h.V("membership", "list-differs-from-model", "List() = %v, the model holds %v", keys, h.SortedKeys(cw.present)))
				}
				if cw.c.IsEmpty() != (len(cw.present) == 0) {
					vs = append(vs, h.V("membership", "isempty-wrong", "IsEmpty() = %v with %d entries", cw.c.IsEmpty(), len(cw.present)))
				}
				return vs
			},
			NonTriv:  func(w *h.World) bool { return len(cwOf(w).log) > 0 },
			MaxDepth: depth,
			Chunk:    40,
		})
	}
	return specs
}

// ---- SCHED scenarios ----------------------------------------------------------------------------

func c20Scenarios(tier string) []*h.Scenario {
	var out []*h.Scenario
	type sc struct {
		name    string
		age     time.Duration
		count   int
		fail    []string
		prefix  []string // keys Set in the prefix
		due     time.Duration
		threads [][]string // ops: "set k", "get k", "del k", "delall", "getlocked k" (holds the value's mutex while calling Get)
	}
	list := []sc{
		{"delete-vs-set-same-key", 0, 0, nil, []string{"a"}, 0, [][]string{{"del a"}, {"set a"}}},
		{"deleteall-vs-set", 0, 0, nil, []string{"a", "b"}, 0, [][]string{{"delall"}, {"set a"}}},
		{"overflow-set-vs-get", 0, 2, nil, []string{"a", "b"}, 0, [][]string{{"set c"}, {"get a"}}},
		{"two-overflowing-sets", 0, 2, nil, []string{"a", "b"}, 0, [][]string{{"set c"}, {"set d"}}},
		{"age-prune-vs-get", 10 * time.Second, 0, nil, []string{"a", "b"}, 12 * time.Second, [][]string{{"get a"}, {"set c"}}},
		{"age-prune-vs-delete", 10 * time.Second, 0, nil, []string{"a"}, 12 * time.Second, [][]string{{"del a"}, {"get a"}}},
		{"age-prune-vs-locked-get", 10 * time.Second, 0, nil, []string{"a"}, 12 * time.Second, [][]string{{"getlocked a"}}},
		{"overflow-vs-locked-get", 0, 2, nil, []string{"a", "b"}, 0, [][]string{{"set c"}, {"getlocked a"}}},
		{"failing-cleanup-overflow", 0, 2, []string{"a"}, []string{"a", "b"}, 0, [][]string{{"set c"}, {"del b"}}},
		// the pruning goroutine of the first overflow may find nothing left to do; later overflows still have to be pruned
		{"overflow-vs-delete-then-more-insertions", 0, 2, nil, []string{"a", "b"}, 0, [][]string{{"set c", "set d", "set e"}, {"del b"}}},
		{"overflow-vs-deleteall-then-more-insertions", 0, 2, nil, []string{"a", "b"}, 0, [][]string{{"set c", "set d", "set e", "set f"}, {"delall"}}},
	}
	if tier == "thorough" {
		list = append(list,
			sc{"three-threads-mixed", 10 * time.Second, 2, nil, []string{"a", "b"}, 12 * time.Second, [][]string{{"set c"}, {"del a"}, {"get b"}}},
			sc{"delete-vs-set-vs-delete", 0, 0, nil, []string{"a"}, 0, [][]string{{"del a"}, {"set a"}, {"del a"}}},
			sc{"deleteall-vs-two-sets", 0, 3, nil, []string{"a", "b", "c"}, 0, [][]string{{"delall"}, {"set d"}, {"set a"}}},
		)
	}
	for _, s := range list {
		s := s
		bound := 2
		if tier == "thorough" {
			bound = 3
		}
		var threads [][]h.Step
		for _, th := range s.threads {
			var steps []h.Step
			for _, op := range th {
				op := op
				steps = append(steps, h.Step{Name: op, Do: func(w *h.World) string {
					cw := w.M.(*c20World)
					f := strings.Fields(op)
					switch f[0] {
					case "set":
						v := cw.set(f[1])
						return fmt.Sprintf("set %d", v.id)
					case "get":
						v, err := cw.c.Get(f[1])
						if err != nil {
							return "miss"
						}
						return fmt.Sprintf("hit %d", v.id)
					case "getlocked":
						// the store pattern: a request holds the value's own mutex and calls back into the cache
						var v *cval
						for _, x := range cw.vals {
							if cw.keyOf[x.id] == f[1] {
								v = x
							}
						}
						if v == nil {
							return "none"
						}
						v.mu.Lock()
						_, err := cw.c.Get(f[1])
						v.mu.Unlock()
						if err != nil {
							return "miss"
						}
						return "hit"
					case "del":
						if err := cw.c.Delete(f[1]); err != nil {
							return "delete-error"
						}
						return "deleted"
					case "delall":
						if err := cw.c.DeleteAll(); err != nil {
							return "deleteall-error"
						}
						return "deleted-all"
					}
					return "?"
				}})
			}
			threads = append(threads, steps)
		}
		out = append(out, &h.Scenario{
			Name: "c20-" + s.name,
			Prefix: func(w *h.World) {
				cw := newC20(s.age, s.count, true)
				w.M = cw
				for _, k := range s.fail {
					cw.fail[k] = true
				}
				for _, k := range s.prefix {
					cw.set(k)
					vrt.Advance(time.Millisecond, false)
				}
			},
			Due:            s.due,
			Threads:        threads,
			Bound:          bound,
			IgnoreDeadlock: true,
			Final: func(w *h.World) string {
				cw := w.M.(*c20World)
				keys, _ := cw.c.List()
				sort.Strings(keys)
				return fmt.Sprint(keys)
			},
			Extra: func(w *h.World, res [][]string, final string) []h.Violation {
				cw := w.M.(*c20World)
				var vs []h.Violation
				// which value does each key hold now?
				holds := map[string]int{}
				keys, _ := cw.c.List()
				for _, k := range keys {
					if v, err := cw.c.Get(k); err == nil {
						holds[k] = v.id
					}
				}
				succ := map[int]bool{}
				for _, e := range cw.log {
					if e.ok {
						succ[e.id] = true
					}
				}
				// a value that was inserted, is not in the cache now, and whose key never received another value afterwards
				// (so it cannot have been overwritten) must have had a successful cleanup
				perKey := map[string][]int{}
				for id, k := range cw.keyOf {
					perKey[k] = append(perKey[k], id)
				}
				for k, ids := range perKey {
					if len(ids) != 1 {
						// several values for one key: a value may disappear without cleanup only by being overwritten by a later Set;
						// the value inserted last has no later Set and must be held or cleaned up
						last := 0
						for _, id := range ids {
							if id > last {
								last = id
							}
						}
						if holds[k] != last && !succ[last] {
							vs = append(vs, h.V("removal-only-after-cleanup", "entry-dropped-without-cleanup:concurrent-set-of-the-key", "key %s received values %v; the last one (%d) is not in the cache and no cleanup of it returned nil: %v", k, ids, last, cw.log))
						}
						continue
					}
					id := ids[0]
					if holds[k] != id && !succ[id] {
						sig := "entry-dropped-without-cleanup"
						if cw.fail[k] {
							sig = "entry-dropped-although-cleanup-failed"
						}
						vs = append(vs, h.V("removal-only-after-cleanup", sig, "value %d of key %s is not in the cache and no cleanup of it returned nil: %v", id, k, cw.log))
					}
				}
				if s.count > 0 && len(s.fail) == 0 && len(keys) > s.count {
					vs = append(vs, h.V("pruned-back-to-limit", "over-limit-after-pruning", "%d entries at quiescence, Count=%d, every cleanup succeeds", len(keys), s.count))
				}
				// never expires an entry that was used within the configured age: a Get that found the entry during the
				// concurrent phase is a use at the instant of quiescence (the clock does not move afterwards), so - unless
				// the scenario deletes the key or prunes by count - the entry is still there
				if s.age > 0 && s.count == 0 {
					deleted := map[string]bool{}
					for _, th := range s.threads {
						for _, op := range th {
							f := strings.Fields(op)
							if f[0] == "delall" {
								deleted["*"] = true
							}
							if f[0] == "del" || f[0] == "set" {
								deleted[f[1]] = true
							}
						}
					}
					for ti, th := range s.threads {
						for si, op := range th {
							f := strings.Fields(op)
							if f[0] != "get" || deleted["*"] || deleted[f[1]] || !strings.HasPrefix(res[ti][si], "hit ") {
								continue
							}
							if _, ok := holds[f[1]]; !ok {
								vs = append(vs, h.V("no-expiry-within-age", "expired-entry-used-within-age:concurrent-get", "Get(%s) found the entry (%s) while the age timer was pruning, and the entry is gone at quiescence: %v", f[1], res[ti][si], cw.log))
							}
						}
					}
				}
				return vs
			},
		})
	}
	return out
}

func init() {
	h.RegisterSeq(&h.SeqCheck{
		ID:    "C20seq",
		Level: "model_checking",
		Specs: c20SeqSpecs,
		Budget: func(tier string) time.Duration {
			if tier == "thorough" {
				return 6 * time.Minute
			}
			return 50 * time.Second
		},
	})
	delete(h.Checks, "C20seq")
	h.RegisterSched(&h.SchedCheck{
		ID:        "C20",
		Level:     "model_checking",
		Scenarios: c20Scenarios,
		Budget: func(tier string) time.Duration {
			if tier == "thorough" {
				return 6 * time.Minute
			}
			return 50 * time.Second
		},
	})
	h.Checks["C20"] = func(tier string) int {
		rep := h.NewReport("C20", tier, "model_checking")
		rep.Rule = "part 1 (SEQ): breadth-first search over all sequences (bounded depth) of Set / Get / Delete / DeleteAll on keys a,b,c, toggling the failure of a key's cleanup, and virtual time Age/2, Age, 1.1 Age (the real age timer and the real pruneCount goroutine run), on cache.Cache[string,*val] for Age in {0,10s} x Count in {0..3}; after every step every callback of the step and the contents are checked against the statement (removal only after a nil cleanup, failed cleanups keep the entry, no expiry within Age, LRU first, back to the limit). " +
			"part 2 (SCHED): 9 (quick) / 12 (thorough) scenarios of 1-3 threads racing Set / Get / Delete / DeleteAll, a Get under the value's own mutex (the store pattern), due age timers and pruneCount goroutines, all interleavings up to the preemption bound: no dead-lock, and every value that left the cache without being overwritten had a nil cleanup; non-trivial = distinct outcomes / states with callbacks"
		rep.Assume = []string{"Pre/Post callbacks lock a scheduler-aware mutex of the value, as the stores do"}
		h.RunSeqInto(rep, "C20seq", tier, time.Time{})
		h.RunSchedInto(rep, "C20", tier)
		return rep.Emit()
	}
}
