//go:build !race

package vrt

// gate is the hand-off primitive between managed threads. In ordinary builds it is a
// buffered channel (fast). In -race builds it is a pipe driven by raw system calls so that
// the hand-off is invisible to the race detector (gate_pipe.go).
type gate struct{ c chan struct{} }

func newGate() *gate { return &gate{c: make(chan struct{}, 1)} }

func (g *gate) signal() { g.c <- struct{}{} }
func (g *gate) wait()   { <-g.c }
func (g *gate) free()   {}

// RaceBuild reports whether the binary was built with the race detector.
const RaceBuild = false
