package checks

import (
	"encoding/json"
	"fmt"
	"net/url"
	"reflect"
	"regexp"
	"sort"
	"strings"
	"time"
	"unsafe"

	"github.com/olareg/olareg/config"
	"github.com/olareg/olareg/internal/verif/h"
	"github.com/olareg/olareg/internal/verif/vos"
	"github.com/olareg/olareg/types"
)

// C15 — any request gets a well-formed answer: no panic, no 5xx for client errors, only grammar names routed.

var c15Registered = map[string]bool{
	"BLOB_UNKNOWN": true, "BLOB_UPLOAD_INVALID": true, "BLOB_UPLOAD_UNKNOWN": true, "DIGEST_INVALID": true, "MANIFEST_BLOB_UNKNOWN": true,
	"MANIFEST_INVALID": true, "MANIFEST_UNKNOWN": true, "NAME_INVALID": true, "NAME_UNKNOWN": true, "SIZE_INVALID": true,
	"UNAUTHORIZED": true, "DENIED": true, "UNSUPPORTED": true, "TOOMANYREQUESTS": true,
}

var c15NameRE = regexp.MustCompile(`^[a-z0-9]+(?:(?:\.|_|__|-+)[a-z0-9]+)*(?:/[a-z0-9]+(?:(?:\.|_|__|-+)[a-z0-9]+)*)*$`)

type c15Req struct {
	label string
	req   h.Req
	codes []string // codes acceptable when the answer is an error with a body (nil = any registered code)
	name  string   // repository name as sent (to judge the grammar clause); "" = not a repository route
}

// storeRepoNames lists the repository names the store has been asked for (memory: map keys; directory: cache keys).
func storeRepoNames(w *h.World) []string {
	var out []string
	sv := reflect.ValueOf(w.S).Elem().FieldByName("store")
	sv = reflect.NewAt(sv.Type(), unsafe.Pointer(sv.UnsafeAddr())).Elem()
	if sv.IsNil() {
		return nil
	}
	st := sv.Elem().Elem()
	repos := st.FieldByName("repos")
	repos = reflect.NewAt(repos.Type(), unsafe.Pointer(repos.UnsafeAddr())).Elem()
	if repos.Kind() == reflect.Ptr { // cache
		if repos.IsNil() {
			return nil
		}
		ent := repos.Elem().FieldByName("entries")
		ent = reflect.NewAt(ent.Type(), unsafe.Pointer(ent.UnsafeAddr())).Elem()
		repos = ent
	}
	it := repos.MapRange()
	for it.Next() {
		out = append(out, it.Key().String())
	}
	sort.Strings(out)
	return out
}

// c15IndexArtifact is an index without children, artifactType and annotations whose subject is I1.
func c15IndexArtifact(f *Fix) []byte {
	sub := refDesc(f.Items["I1"])
	return h.Index(mtIdx, nil, &sub, "", nil)
}

func c15Grammar(f *Fix, tier string, sessPath, sessID string) []c15Req {
	var out []c15Req
	methods := []string{"GET", "HEAD", "POST", "PUT", "PATCH", "DELETE", "OPTIONS", "FOO"}
	add := func(label, method, path, query string, hdr map[string]string, body []byte, name string, codes ...string) {
		out = append(out, c15Req{label: method + " " + label, req: h.Req{Method: method, Path: path, Query: query, Header: hdr, Body: body}, codes: codes, name: name})
	}
	i1 := f.Items["I1"]
	unknownDig := h.Dig("sha256", []byte("nobody-pushed-this"))
	long := strings.Repeat("a", 300)
	type nm struct{ label, v string }
	names := []nm{{"existing", "r"}, {"unknown", "nosuch"}, {"nested", "r/sub"}, {"upper-case", "R"}, {"reserved-blobs", "r/blobs"}, {"reserved-index.json", "index.json"},
		{"reserved-oci-layout", "r/oci-layout"}, {"300-chars", long}, {"empty-element", "r//x"}, {"dot-dot", "r/../q"}, {"encoded-slash", "r%2fx"}, {"leading-dash", "-r"}, {"underscore-run", "a___b"}, {"trailing-dot", "r."}}
	if tier != "thorough" {
		names = names[:12]
	}
	// top level
	for _, m := range methods {
		for _, p := range []string{"/v2/", "/v2", "/", "", "/v1/", "/v2/extra", "/v2//", "/v2/r", "/v2/r/unknownverb/x", "/v2/r/manifests", "/v2/r/blobs", "/v2/r/tags", "/v2/r/tags/list/extra", "/v2/r/manifests/t/extra", "/../v2/"} {
			add("top "+p, m, p, "", nil, nil, "")
		}
	}
	// manifests
	refs := []nm{{"tag", "t"}, {"unknown-tag", "nope"}, {"digest", i1.Dig}, {"unknown-digest", unknownDig}, {"malformed-digest", "sha256:xyz"}, {"unsupported-alg", "md5:d41d8cd98f00b204e9800998ecf8427e"},
		{"129-chars", strings.Repeat("t", 129)}, {"dot-dot", ".."}, {"bad-char", "a!b"}, {"sha512", h.Dig("sha512", i1.Data)},
		// stored referrers of I1 by digest: an image artifact, and an index that carries a subject but neither an artifactType nor a config
		{"artifact-digest", f.Items["A1"].Dig}, {"index-artifact-digest", h.Dig("sha256", c15IndexArtifact(f))}}
	for _, m := range methods {
		for _, n := range names {
			for _, r := range refs {
				if n.label != "existing" && n.label != "unknown" && r.label != "tag" && r.label != "digest" {
					continue
				}
				if strings.HasSuffix(r.label, "artifact-digest") && n.label != "existing" {
					continue
				}
				var body []byte
				hdr := map[string]string{"Accept": strings.Join(c02Types, ", ")}
				if m == "PUT" {
					body = i1.Data
					hdr["Content-Type"] = mtImg
				}
				var codes []string
				switch {
				case (m == "GET" || m == "HEAD" || m == "DELETE") && (r.label == "unknown-tag" || r.label == "unknown-digest" || n.label == "unknown"):
					codes = []string{"MANIFEST_UNKNOWN", "NAME_UNKNOWN"}
				case r.label == "malformed-digest" || r.label == "unsupported-alg":
					codes = []string{"DIGEST_INVALID", "MANIFEST_UNKNOWN", "NAME_UNKNOWN"}
				}
				add("manifests name="+n.label+" ref="+r.label, m, "/v2/"+n.v+"/manifests/"+r.v, "", hdr, body, n.v, codes...)
			}
		}
	}
	// manifest PUT bodies and parameters
	for _, b := range []nm{{"empty", ""}, {"junk", "\x00\x01junk"}, {"truncated", string(i1.Data[:40])}, {"json-array", "[1,2]"}, {"deep-null", `{"config":null,"layers":null}`}, {"layers-null-entry", `{"schemaVersion":2,"mediaType":"` + mtImg + `","config":{"digest":""},"layers":[null]}`},
		// shapes of the optional lists and objects: present but empty, null, of the wrong type
		{"manifests-empty", `{"schemaVersion":2,"manifests":[]}`}, {"manifests-null", `{"schemaVersion":2,"manifests":null}`}, {"manifests-null-entry", `{"schemaVersion":2,"manifests":[null]}`},
		{"manifests-empty-object-entry", `{"schemaVersion":2,"manifests":[{}]}`}, {"layers-empty-config-empty", `{"schemaVersion":2,"config":{},"layers":[]}`}, {"manifests-string", `{"schemaVersion":2,"manifests":"x"}`},
		{"subject-null", `{"schemaVersion":2,"mediaType":"` + mtImg + `","config":{"mediaType":"application/vnd.oci.empty.v1+json","digest":"` + f.Items["c"].Dig + `","size":2},"layers":[],"subject":null}`},
		{"subject-empty-object", `{"schemaVersion":2,"mediaType":"` + mtIdx + `","manifests":[],"subject":{}}`}} {
		for _, ct := range []string{mtImg, mtIdx, "", "text/plain", mtImg + "; charset=utf-8"} {
			hdr := map[string]string{}
			if ct != "" {
				hdr["Content-Type"] = ct
			}
			add("manifests PUT body="+b.label+" ct="+ct, "PUT", "/v2/r/manifests/t2", "", hdr, []byte(b.v), "r")
		}
	}
	for _, q := range []string{"digest=", "digest=sha256:xyz", "digest=" + url.QueryEscape(unknownDig), "digest=md5:00", "digest=%zz"} {
		add("manifests PUT ?"+q, "PUT", "/v2/r/manifests/t2", q, map[string]string{"Content-Type": mtImg}, i1.Data, "r")
	}
	// blobs
	digs := []nm{{"existing", f.Items["l1"].Dig}, {"unknown", unknownDig}, {"malformed", "sha256:xyz"}, {"unsupported-alg", "md5:d41d8cd98f00b204e9800998ecf8427e"}, {"no-colon", "abc"}, {"dot-dot", ".."}, {"sha384", h.Dig("sha384", []byte("x"))}}
	for _, m := range methods {
		for _, n := range names {
			for _, d := range digs {
				if n.label != "existing" && n.label != "unknown" && d.label != "existing" {
					continue
				}
				var codes []string
				switch {
				case d.label == "malformed" || d.label == "unsupported-alg" || d.label == "no-colon" || d.label == "dot-dot":
					codes = []string{"DIGEST_INVALID"}
				case (m == "GET" || m == "HEAD" || m == "DELETE") && (d.label == "unknown" || n.label == "unknown"):
					codes = []string{"BLOB_UNKNOWN", "NAME_UNKNOWN"}
				}
				add("blobs name="+n.label+" digest="+d.label, m, "/v2/"+n.v+"/blobs/"+d.v, "", nil, nil, n.v, codes...)
			}
		}
	}
	for _, rg := range []string{"bytes=0-0", "bytes=5-1", "bytes=999-", "bytes=-0", "bytes=a-b", "bytes=0-0,2-3", "items=0-1"} {
		add("blobs Range "+rg, "GET", "/v2/r/blobs/"+f.Items["l1"].Dig, "", map[string]string{"Range": rg}, nil, "r")
	}
	// upload POST
	for _, n := range names {
		add("uploads POST name="+n.label, "POST", "/v2/"+n.v+"/blobs/uploads/", "", nil, nil, n.v)
		add("uploads POST no-slash name="+n.label, "POST", "/v2/"+n.v+"/blobs/uploads", "", nil, nil, n.v)
	}
	for _, q := range []string{"digest=", "digest=sha256:xyz", "digest=md5:00", "digest=" + url.QueryEscape(unknownDig), "digest-algorithm=md5", "digest-algorithm=sha512", "digest-algorithm=", "digest-algorithm=sha256&digest=" + url.QueryEscape(h.Dig("sha512", []byte("zz"))),
		"mount=sha256:xyz&from=r", "mount=" + url.QueryEscape(unknownDig) + "&from=r", "mount=" + url.QueryEscape(f.Items["l1"].Dig) + "&from=R", "mount=" + url.QueryEscape(f.Items["l1"].Dig) + "&from=..", "mount=" + url.QueryEscape(f.Items["l1"].Dig) + "&from=r/blobs",
		"mount=" + url.QueryEscape(f.Items["l1"].Dig) + "&from=" + long, "mount=" + url.QueryEscape(f.Items["l1"].Dig), "from=r", "mount=&from=", "mount=" + url.QueryEscape(f.Items["l1"].Dig) + "&from=r"} {
		codes := []string(nil)
		if strings.Contains(q, "xyz") || strings.Contains(q, "md5") {
			codes = []string{"DIGEST_INVALID"}
		}
		add("uploads POST ?"+q, "POST", "/v2/q/blobs/uploads/", q, nil, []byte("zz"), "q", codes...)
	}
	// upload sessions
	ids := []nm{{"unknown", "nosuchsession"}, {"dot-dot", ".."}, {"encoded-slash", "a%2fb"}, {"long", long}}
	if sessID != "" {
		ids = append(ids, nm{"existing", sessID})
	}
	states := []nm{{"correct", stateToken(1)}, {"stale", stateToken(0)}, {"absent", ""}, {"not-base64", "!!!"}, {"not-json", "bm90anNvbg"}, {"negative", "eyJvZmZzZXQiOi0xfQ"}, {"huge", "eyJvZmZzZXQiOjkyMjMzNzIwMzY4NTQ3NzU4MDh9"}}
	for _, m := range []string{"GET", "HEAD", "PATCH", "PUT", "DELETE", "POST", "OPTIONS"} {
		for _, id := range ids {
			for _, st := range states {
				if id.label != "existing" && st.label != "correct" {
					continue
				}
				q := ""
				if st.v != "" {
					q = "state=" + url.QueryEscape(st.v)
				}
				var codes []string
				if id.label == "unknown" || id.label == "long" {
					codes = []string{"BLOB_UPLOAD_UNKNOWN"}
				} else if id.label == "existing" && (m == "PATCH" || m == "PUT") && st.label != "correct" {
					codes = []string{"BLOB_UPLOAD_INVALID", "DIGEST_INVALID"}
				}
				if m == "PUT" {
					if q != "" {
						q += "&"
					}
					q += "digest=" + url.QueryEscape(h.Dig("sha256", []byte("xq")))
				}
				add("session id="+id.label+" state="+st.label, m, "/v2/r/blobs/uploads/"+id.v, q, nil, []byte("q"), "r", codes...)
			}
		}
	}
	if sessID != "" {
		for _, cr := range []string{"1-1", "0-0", "5-9", "abc", "-", "1", "-5", "9223372036854775808-1", "1-0"} {
			codes := []string(nil)
			if cr != "1-1" && cr != "1-0" {
				codes = []string{"SIZE_INVALID"}
			}
			add("session PATCH Content-Range "+cr, "PATCH", "/v2/r/blobs/uploads/"+sessID, "state="+stateToken(1), map[string]string{"Content-Range": cr}, []byte("q"), "r", codes...)
		}
		for _, d := range []string{"", "sha256:xyz", "md5:00", h.Dig("sha256", []byte("other")), h.Dig("sha512", []byte("other"))} {
			codes := []string{"DIGEST_INVALID", "BLOB_UPLOAD_INVALID"}
			add("session PUT digest="+short(d), "PUT", "/v2/r/blobs/uploads/"+sessID, "state="+stateToken(1)+"&digest="+url.QueryEscape(d), nil, []byte{}, "r", codes...)
		}
	}
	// tags
	for _, n := range names {
		add("tags name="+n.label, "GET", "/v2/"+n.v+"/tags/list", "", nil, nil, n.v)
	}
	for _, nq := range []string{"-1", "0", "1", "2", "9223372036854775807", "9223372036854775808", "x", "", "1.5", "+1", "0x10"} {
		for _, last := range []string{"\x00", "", "t", "zzz", "%00"} {
			q := "n=" + url.QueryEscape(nq)
			if last != "\x00" {
				q += "&last=" + url.QueryEscape(last)
			}
			for _, m := range []string{"GET", "HEAD"} {
				add("tags ?n="+nq+" last="+last, m, "/v2/r/tags/list", q, nil, nil, "r")
			}
		}
	}
	// referrers
	for _, m := range methods {
		for _, n := range names {
			for _, d := range digs {
				if n.label != "existing" && d.label != "existing" {
					continue
				}
				sub := d.v
				if d.label == "existing" {
					sub = i1.Dig
				}
				add("referrers name="+n.label+" subject="+d.label, m, "/v2/"+n.v+"/referrers/"+sub, "", nil, nil, n.v)
			}
		}
	}
	for _, q := range []string{"artifactType=", "artifactType=application/x.test", "artifactType=%zz", "page=1", "page=-1", "page=x", "page=9223372036854775808", "cache=sha256:xyz&page=1", "cache=" + url.QueryEscape(unknownDig) + "&page=1",
		"cache=" + url.QueryEscape(unknownDig) + "&page=99", "cache=&page=1", "cache=" + url.QueryEscape(unknownDig), "page=1&artifactType=application/x.test"} {
		add("referrers ?"+q, "GET", "/v2/r/referrers/"+i1.Dig, q, nil, nil, "r")
	}
	return out
}

func c15Specs(tier string) []*h.SeqSpec {
	f := StdFix()
	var specs []*h.SeqSpec
	type stt struct {
		name string
		init func(w *h.World)
		mod  func(c *config.Config)
	}
	populate := func(w *h.World) {
		for _, b := range []string{"c", "l1", "e"} {
			mustStatus(w.PushBlob("r", f.Items[b].Data, f.Items[b].Dig), 201)
		}
		mustStatus(w.PutManifest("r", "t", mtImg, f.Items["I1"].Data), 201)
		mustStatus(w.PutManifest("r", f.Items["A1"].Dig, mtImg, f.Items["A1"].Data), 201)
		mustStatus(w.PutManifest("r", f.Items["A2"].Dig, mtImg, f.Items["A2"].Data), 201)
		xa := c15IndexArtifact(f)
		mustStatus(w.PutManifest("r", h.Dig("sha256", xa), mtIdx, xa), 201)
	}
	sessions := func(w *h.World) {
		populate(w)
		m := NewSessModel()
		w.M = m
		_, s := openSession(w, "s1", "r", "")
		r := w.Do(h.Req{Method: "PATCH", Path: s.Path, Query: "state=" + s.State, Body: []byte("x")})
		mustStatus(r, 202)
		mustStatus(w.Do(h.Req{Method: "POST", Path: "/v2/r/blobs/uploads/", Query: "mount=" + url.QueryEscape(h.Dig("sha256", []byte("mm"))) + "&from=nosuch"}), 202)
	}
	big := refDesc(f.Items["A1"])
	one := int64(len(h.Index(mtIdx, []h.Desc{big}, nil, "", nil))) + 8
	states := []stt{
		{"empty", func(w *h.World) {}, nil},
		{"populated", populate, nil},
		{"sessions", sessions, nil},
		{"paged-referrers", func(w *h.World) {
			populate(w)
			// a second artifact of the same type: the filtered list is paged as well
			mustStatus(w.PutManifest("r", f.Items["A3"].Dig, mtIdx, f.Items["A3"].Data), 201)
			w.Referrers("r", f.Items["I1"].Dig, "")
		}, func(c *config.Config) { c.API.Referrer.Limit = one }},
	}
	for _, store := range []string{"mem", "dir"} {
		sts := states
		if store == "dir" {
			sts = append(append([]stt{}, states...), stt{"converted-then-referrers-disabled", func(w *h.World) {
				populate(w)
				w.Cfg.API.Referrer.Enabled = bpF(false)
				_ = w.Reopen()
			}, nil})
		}
		for _, st := range sts {
			store, st := store, st
			// the grammar depends on the session id, which is deterministic: compute it from a throw-away world lazily
			var ops []h.Op
			sessID := ""
			if st.name == "sessions" {
				sessID = "\x00SESS"
			}
			if st.name == "paged-referrers" {
				// continuation requests that name the *current* response digest (taken from a Link header), for every page number
				// around the page count and for filters that were and were not requested before
				for _, pg := range []string{"-1", "0", "1", "2", "3", "4", "99", "x"} {
					for _, at := range []string{"", "application/x.test", "never/requested"} {
						pg, at := pg, at
						label := fmt.Sprintf("GET referrers ?cache=<current digest>&page=%s artifactType=%q", pg, at)
						rq := c15Req{label: label, name: "r"}
						ops = append(ops, h.Op{Name: label, Do: func(w *h.World) []h.Violation {
							first := w.Do(h.Req{Method: "GET", Path: "/v2/r/referrers/" + f.Items["I1"].Dig})
							cache := ""
							if u, err := url.Parse(h.NextLink(first)); err == nil {
								cache = u.Query().Get("cache")
							}
							if cache == "" {
								return nil
							}
							q := url.Values{}
							q.Set("cache", cache)
							q.Set("page", pg)
							if at != "" {
								q.Set("artifactType", at)
							}
							rq.req = h.Req{Method: "GET", Path: "/v2/r/referrers/" + f.Items["I1"].Dig, Query: q.Encode()}
							logStart := vos.LogLen()
							r := w.Do(rq.req)
							return c15Judge(w, rq, r, logStart)
						}})
					}
				}
			}
			for _, rq := range c15Grammar(f, tier, "", sessID) {
				rq := rq
				ops = append(ops, h.Op{Name: rq.label, Do: func(w *h.World) []h.Violation {
					req := rq.req
					if sessID != "" {
						if s := w.M.(*SessModel).S["s1"]; s != nil {
							req.Path = strings.ReplaceAll(req.Path, "\x00SESS", s.ID)
						}
					}
					logStart := vos.LogLen()
					r := w.Do(req)
					vs := c15Judge(w, rq, r, logStart)
					if r.Status >= 400 && r.Status < 500 && r.Panic == "" && strings.Contains(string(r.Body), `"NAME_INVALID"`) {
						// a disallowed name is disallowed whatever the state: the same request is refused in the same way again
						// (a name the store refuses must not become acceptable by asking twice)
						for i := 2; i <= 3; i++ {
							logStart = vos.LogLen()
							r2 := w.Do(req)
							vs = append(vs, c15Judge(w, rq, r2, logStart)...)
							if r2.Panic == "" && (r2.Status != r.Status || !strings.Contains(string(r2.Body), `"NAME_INVALID"`)) {
								vs = append(vs, h.V("code-for-condition", fmt.Sprintf("disallowed-name-accepted-when-asked-again:%d-then-%d", r.Status, r2.Status), "%s %s?%s was refused as NAME_INVALID (%s); attempt %d of the same request answers %s", req.Method, clipS(req.Path), req.Query, r, i, r2))
								break
							}
						}
					}
					return vs
				}})
			}
			specs = append(specs, &h.SeqSpec{
				Name:     "c15-" + store + "-" + st.name,
				Conf:     &h.Conf{Name: store, Store: store, Mod: st.mod},
				Init:     st.init,
				Ops:      ops,
				MaxDepth: map[bool]int{false: 1, true: 2}[tier == "thorough"], // thorough: every request again from every distinct state one request leaves behind
				Chunk:    1,
			})
		}
	}
	return specs
}

func bpF(b bool) *bool { return &b }

func c15Judge(w *h.World, rq c15Req, r h.Resp, logStart int) []h.Violation {
	var vs []h.Violation
	if r.Panic != "" {
		return nil // reported by the DSL
	}
	cls := strings.ReplaceAll(rq.label, " ", "_")
	// the code named for a condition is only demanded for the first request from a start state: a request after
	// another one meets whatever that one left behind (an ended session, deleted content), and then another code is right
	if len(w.Hist) > 1 {
		rq.codes = nil
	}
	if r.Status == 416 && rq.req.Header["Range"] != "" {
		cls = "unsatisfiable-Range-on-content"
	}
	if r.Status >= 500 {
		vs = append(vs, h.V("no-5xx-for-client-errors", fmt.Sprintf("status-%d:%s", r.Status, cls), "%s %s?%s answered %s", rq.req.Method, clipS(rq.req.Path), rq.req.Query, r))
	}
	if r.Status == 0 {
		vs = append(vs, h.V("answers", "no-status:"+cls, "no status was written"))
	}
	// error document
	if r.Status >= 400 && len(r.Body) > 0 {
		var doc struct {
			Errors []struct {
				Code    *string `json:"code"`
				Message *string `json:"message"`
				Detail  any     `json:"detail"`
			} `json:"errors"`
		}
		if err := json.Unmarshal(r.Body, &doc); err != nil || len(doc.Errors) == 0 {
			vs = append(vs, h.V("error-document", "error-body-not-oci:"+cls, "error body is not an OCI error document: %s", r))
		} else {
			for _, e := range doc.Errors {
				if e.Code == nil || e.Message == nil {
					vs = append(vs, h.V("error-document", "error-entry-incomplete:"+cls, "error entry without code or message: %s", r))
					continue
				}
				if !c15Registered[*e.Code] {
					vs = append(vs, h.V("registered-code", "unregistered-code:"+*e.Code, "code %q is not a registered OCI error code (%s %s): %s", *e.Code, rq.req.Method, clipS(rq.req.Path), r))
					continue
				}
				if rq.codes != nil {
					ok := false
					for _, c := range rq.codes {
						if c == *e.Code {
							ok = true
						}
					}
					if !ok {
						vs = append(vs, h.V("code-for-condition", "wrong-code:"+cls+":"+*e.Code, "%s: code %s, expected one of %v: %s", cls, *e.Code, rq.codes, r))
					}
				}
			}
		}
	}
	// only names of the grammar reach the store
	for _, n := range storeRepoNames(w) {
		if !c15NameRE.MatchString(n) {
			vs = append(vs, h.V("only-grammar-names-routed", "invalid-name-reached-store:"+cls, "the store was asked for repository %q", clipS(n)))
		}
	}
	if w.Dir != "" {
		for _, op := range vos.Log()[logStart:] {
			rel := strings.TrimPrefix(op.Path, w.Dir)
			if rel == op.Path {
				vs = append(vs, h.V("storage-inside-root", "fs-access-outside-root:"+cls, "%s %s", op.Kind, op.Path))
				continue
			}
			// path elements up to a layout entry must be a grammar name
			parts := strings.Split(strings.Trim(rel, "/"), "/")
			var nm []string
			for _, p := range parts {
				if p == "blobs" || p == "index.json" || p == "oci-layout" || p == "_uploads" || strings.HasPrefix(p, "index.json.") {
					break
				}
				nm = append(nm, p)
			}
			if len(nm) > 0 && !c15NameRE.MatchString(strings.Join(nm, "/")) {
				vs = append(vs, h.V("only-grammar-names-routed", "invalid-name-reached-fs:"+cls, "%s %s", op.Kind, clipS(rel)))
			}
		}
	}
	return vs
}

func clipS(s string) string {
	if len(s) > 80 {
		return s[:80] + "…"
	}
	return s
}

// c15ErrTable: every ErrInfo constructor yields its registered code.
func c15ErrTable() []h.Violation {
	var vs []h.Violation
	tbl := map[string]types.ErrorInfo{
		"BLOB_UNKNOWN": types.ErrInfoBlobUnknown("d"), "BLOB_UPLOAD_INVALID": types.ErrInfoBlobUploadInvalid("d"), "BLOB_UPLOAD_UNKNOWN": types.ErrInfoBlobUploadUnknown("d"),
		"DIGEST_INVALID": types.ErrInfoDigestInvalid("d"), "MANIFEST_BLOB_UNKNOWN": types.ErrInfoManifestBlobUnknown("d"), "MANIFEST_INVALID": types.ErrInfoManifestInvalid("d"),
		"MANIFEST_UNKNOWN": types.ErrInfoManifestUnknown("d"), "NAME_INVALID": types.ErrInfoNameInvalid("d"), "NAME_UNKNOWN": types.ErrInfoNameUnknown("d"), "SIZE_INVALID": types.ErrInfoSizeInvalid("d"),
		"UNAUTHORIZED": types.ErrInfoUnauthorized("d"), "DENIED": types.ErrInfoDenied("d"), "UNSUPPORTED": types.ErrInfoUnsupported("d"), "TOOMANYREQUESTS": types.ErrInfoTooManyRequests("d"),
	}
	for _, want := range h.SortedKeys(tbl) {
		got := tbl[want]
		if got.Code != want || got.Detail != "d" || got.Message == "" {
			vs = append(vs, h.V("registered-code", "constructor-code-wrong:"+want, "the constructor for %s yields code=%q message=%q", want, got.Code, got.Message))
		}
	}
	return vs
}

func init() {
	h.RegisterSeq(&h.SeqCheck{
		ID:    "C15",
		Level: "model_checking",
		Rule: "every request of a grammar (8 methods x every route x repository names inside and outside the OCI grammar incl. reserved, upper case, 300 characters, empty and dot segments x references, digests, session ids, state tokens, ranges, n/last, page/cache, digest and mount parameters at and beyond their bounds x bodies and Content-Types) is executed from each of 4-5 repository states (empty, populated, open sessions incl. one with a declared digest, paged referrers, converted layout with the referrers API disabled) on both stores, each on a fresh instance; in the thorough tier every request is sent again from every distinct state that one request leaves behind (depth 2: ended sessions, deleted content, half-written uploads), with the condition-specific code only demanded for first requests; a request refused as NAME_INVALID is sent twice more and must be refused the same way; " +
			"oracle: no panic, status < 500, error bodies are OCI error documents with a registered code (and the code named for the condition where the condition is unambiguous), only names of the grammar reach the store or the filesystem; non-trivial = request answered with a 4xx or a state change",
		Assume: []string{"storage is healthy throughout", "the expected code is only demanded where the condition is unambiguous (lists in the check source)"},
		Specs:  c15Specs,
		Budget: func(tier string) time.Duration {
			if tier == "thorough" {
				return 12 * time.Minute
			}
			return 110 * time.Second
		},
	})
	h.SeqExtras["C15"] = func(rep *h.Report) {
		for _, v := range c15ErrTable() {
			rep.AddViolation(v)
		}
		rep.Evals += 14
	}
}
