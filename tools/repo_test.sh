#!/bin/bash
# Runs the repository's own suite (guard off) on /repo; the root package is retried up to 3 times
# because TestServer/Dir/Garbage_Collect is flaky on the unmodified tree (DESIGN.md section 7).
export GOFLAGS=-mod=mod GOPROXY=off GOSUMDB=off GOTOOLCHAIN=local
cd "${1:-/repo}" || exit 2
go build ./... || exit 1
out=$(go test -vet=off -count=1 ./... 2>&1)
if echo "$out" | grep -q "^FAIL"; then
  for i in 1 2; do
    if echo "$out" | grep "^FAIL\s" | grep -qv "github.com/olareg/olareg\s"; then break; fi
    out2=$(go test -vet=off -count=1 . 2>&1)
    if ! echo "$out2" | grep -q "^FAIL"; then echo "SUITE OK (root package passed on retry $i)"; exit 0; fi
  done
  echo "$out" | grep -E "^(--- FAIL|FAIL|ok)" | head -20
  echo "SUITE FAILED"; exit 1
fi
echo "SUITE OK"
