package checks

import (
	"fmt"
	"net/url"
	"strings"
	"time"

	"github.com/olareg/olareg/internal/verif/h"
)

// C01 — served content always hashes to the digest it is served under; mismatching uploads are refused.

func c01Contents() []string {
	// every string over {x,y} up to length 3
	out := []string{""}
	prev := []string{""}
	for l := 1; l <= 3; l++ {
		var cur []string
		for _, p := range prev {
			cur = append(cur, p+"x", p+"y")
		}
		out = append(out, cur...)
		prev = cur
	}
	return out
}

func c01Algs(tier string) []string {
	if tier == "thorough" {
		return []string{"sha256", "sha512", "sha384"}
	}
	return []string{"sha256", "sha512"}
}

// c01HashInvariant: whatever is returned under a digest hashes to it (both endpoints, both repos, tags).
func c01HashInvariant(w *h.World, repos []string, digests []string, tags []string) []h.Violation {
	var vs []h.Violation
	chk := func(what, d string, r h.Resp, isHead bool) {
		if r.Status != 200 {
			return
		}
		hd := r.H.Get("Docker-Content-Digest")
		if d == "" {
			d = hd // by tag: the reported digest
		}
		if hd != d {
			vs = append(vs, h.V("reported-digest", "digest-header-wrong", "%s: Docker-Content-Digest %q, addressed as %q", what, hd, d))
		}
		if !isHead && !digestMatches(d, r.Body) {
			vs = append(vs, h.V("served-bytes-hash-to-digest", "served-content-hash-mismatch:"+strings.Fields(what)[1], "%s: returned %q which does not hash to %s", what, clipB(r.Body), d))
		}
	}
	for _, repo := range repos {
		for _, d := range digests {
			chk("GET blob "+repo+"/"+short(d), d, w.Get("/v2/"+repo+"/blobs/"+d), false)
			chk("GET manifest "+repo+"/"+short(d), d, w.GetManifest(repo, d), false)
			chk("HEAD blob "+repo+"/"+short(d), d, w.Head("/v2/"+repo+"/blobs/"+d), true)
		}
		for _, t := range tags {
			chk("GET manifest "+repo+":"+t, "", w.GetManifest(repo, t), false)
		}
	}
	vs = append(vs, storedBlobsHashCheck(w)...)
	return vs
}

func c01Specs(tier string) []*h.SeqSpec {
	algs := c01Algs(tier)
	contents := c01Contents()
	var digests []string
	for _, c := range contents {
		for _, a := range []string{"sha256", "sha512", "sha384"} {
			digests = append(digests, dg(a, []byte(c)))
		}
	}
	var specs []*h.SeqSpec
	for _, store := range []string{"mem", "dir"} {
		store := store
		// ---- spec A: blob upload protocols
		var ops []h.Op
		digestFor := func(kind string, b []byte) string {
			switch kind {
			case "other":
				return dg("sha256", append(append([]byte{}, b...), 'z'))
			}
			return dg(kind, b)
		}
		kinds := append(append([]string{}, algs...), "other")
		for _, c := range []string{"", "xy"} {
			for _, k := range kinds {
				c, k := c, k
				ops = append(ops, h.Op{Name: fmt.Sprintf("POST a monolithic %q digest=%s", c, k), Do: func(w *h.World) []h.Violation {
					d := digestFor(k, []byte(c))
					r := w.PushBlob("a", []byte(c), d)
					if k == "other" {
						if r.Status < 400 || r.Status >= 500 {
							return []h.Violation{h.V("mismatch-refused-4xx", "mismatch-not-refused:monolithic", "monolithic upload of %q declared as %s answered %s", c, d, r)}
						}
						return nil
					}
					if r.Status == 201 {
						sessM(w).AddBlob("a", d, c)
					}
					return nil
				}})
			}
		}
		ops = append(ops, h.Op{Name: "POST b monolithic \"xy\" digest=sha256", Do: func(w *h.World) []h.Violation {
			d := dg("sha256", []byte("xy"))
			if r := w.PushBlob("b", []byte("xy"), d); r.Status == 201 {
				sessM(w).AddBlob("b", d, "xy")
			}
			return nil
		}})
		ops = append(ops, h.Op{Name: "open s1", Do: func(w *h.World) []h.Violation { openSession(w, "s1", "a", ""); return nil }})
		ops = append(ops, h.Op{Name: "open s2 digest-algorithm=sha512", Do: func(w *h.World) []h.Violation {
			if _, s := openSession(w, "s2", "a", "digest-algorithm=sha512"); s != nil {
				s.Alg = "sha512"
			}
			return nil
		}})
		for _, from := range []string{"b", "nosuch"} {
			from := from
			ops = append(ops, h.Op{Name: "POST a mount sha256(\"xy\") from=" + from, Do: func(w *h.World) []h.Violation {
				d := dg("sha256", []byte("xy"))
				r := w.Do(h.Req{Method: "POST", Path: "/v2/a/blobs/uploads/", Query: "mount=" + url.QueryEscape(d) + "&from=" + from})
				switch r.Status {
				case 201:
					sessM(w).AddBlob("a", d, "xy")
				case 202:
					p, st := parseLocation(r.H.Get("Location"))
					id := p[strings.LastIndex(p, "/")+1:]
					s := &Sess{Slot: "s2", Repo: "a", ID: id, Path: p, State: st, Open: true, Expect: d}
					w.Slots["s2"] = id
					sessM(w).S["s2"] = s
				}
				return nil
			}})
		}
		chunks := []string{"x", "y"}
		if tier == "thorough" {
			chunks = []string{"x", "y", ""}
		}
		for _, sl := range []string{"s1", "s2"} {
			for _, ch := range chunks {
				sl, ch := sl, ch
				ops = append(ops, h.Op{Name: fmt.Sprintf("PATCH %s %q", sl, ch), Do: func(w *h.World) []h.Violation {
					s := sessM(w).S[sl]
					if s == nil {
						return nil
					}
					r := w.Do(h.Req{Method: "PATCH", Path: s.Path, Query: "state=" + s.State, Body: []byte(ch),
						Header: map[string]string{"Content-Type": "application/octet-stream", "Content-Range": fmt.Sprintf("%d-%d", len(s.Bytes), len(s.Bytes)+len(ch)-1)}})
					if r.Status == 202 {
						s.Bytes = append(s.Bytes, ch...)
						_, s.State = parseLocation(r.H.Get("Location"))
					}
					return nil
				}})
			}
		}
		for _, sl := range []string{"s1", "s2"} {
			for _, last := range []string{"", "y"} {
				for _, k := range kinds {
					sl, last, k := sl, last, k
					ops = append(ops, h.Op{Name: fmt.Sprintf("PUT %s last=%q digest=%s", sl, last, k), Do: func(w *h.World) []h.Violation {
						s := sessM(w).S[sl]
						if s == nil {
							return nil
						}
						all := append(append([]byte{}, s.Bytes...), last...)
						d := digestFor(k, all)
						r := w.Do(h.Req{Method: "PUT", Path: s.Path, Query: "state=" + s.State + "&digest=" + url.QueryEscape(d), Body: []byte(last),
							Header: map[string]string{"Content-Type": "application/octet-stream"}})
						wasOpen := s.Open
						if r.Status == 201 {
							sessM(w).AddBlob("a", d, string(all))
						}
						if r.Status != 416 && r.Status != 404 { // anything but a refused range ends the session in the model
							s.Open = false
						}
						if wasOpen && k == "other" && (r.Status < 400 || r.Status >= 500) {
							return []h.Violation{h.V("mismatch-refused-4xx", "mismatch-not-refused:session-put", "completing %s (%q received) with digest %s answered %s", sl, all, d, r)}
						}
						return nil
					}})
				}
			}
		}
		depth := 5
		if tier == "thorough" {
			depth = 6
		}
		specs = append(specs, &h.SeqSpec{
			Name:  "c01-blobs-" + store,
			Conf:  &h.Conf{Name: store, Store: store},
			Init:  func(w *h.World) { w.M = NewSessModel() },
			Ops:   ops,
			Model: func(w *h.World) string { return sessM(w).String() },
			Probe: func(w *h.World) []h.Violation {
				return c01HashInvariant(w, []string{"a", "b"}, digests, nil)
			},
			NonTriv:  func(w *h.World) bool { return len(sessM(w).Blobs) > 0 },
			MaxDepth: depth,
		})

		// ---- spec B: manifest pushes by tag, by digest, with ?digest=
		f := StdFix()
		bodies := [][]byte{f.Items["I1"].Data, append(append([]byte{}, f.Items["I1"].Data...), '\n')}
		var mdig []string
		for _, b := range bodies {
			for _, a := range []string{"sha256", "sha512", "sha384"} {
				mdig = append(mdig, dg(a, b))
			}
		}
		var mops []h.Op
		for bi := range bodies {
			for _, ref := range []string{"tag", "sha256", "sha512", "wrong"} {
				for _, prm := range []string{"", "sha512", "wrong"} {
					bi, ref, prm := bi, ref, prm
					if tier != "thorough" && bi == 1 && prm == "sha512" && ref != "tag" {
						continue
					}
					mops = append(mops, h.Op{Name: fmt.Sprintf("PUT manifest body%d ref=%s ?digest=%s", bi, ref, prm), Do: func(w *h.World) []h.Violation {
						body, other := bodies[bi], bodies[1-bi]
						r := "t"
						switch ref {
						case "sha256", "sha512":
							r = dg(ref, body)
						case "wrong":
							r = dg("sha256", other)
						}
						q := ""
						switch prm {
						case "sha512":
							q = "digest=" + url.QueryEscape(dg("sha512", body))
						case "wrong":
							q = "digest=" + url.QueryEscape(dg("sha512", other))
						}
						resp := w.Do(h.Req{Method: "PUT", Path: "/v2/a/manifests/" + r, Query: q, Body: body, Header: map[string]string{"Content-Type": mtImg}})
						// the digest that decides the storage address: the reference if it is a digest, else the parameter
						mismatch := ref == "wrong" || (ref == "tag" && prm == "wrong")
						if mismatch && (resp.Status < 400 || resp.Status >= 500) {
							return []h.Violation{h.V("mismatch-refused-4xx", "mismatch-not-refused:manifest", "manifest push (ref=%s, ?digest=%s) with a digest that is not the body's answered %s", ref, prm, resp)}
						}
						if resp.Status == 201 {
							sessM(w).AddBlob("a", resp.H.Get("Docker-Content-Digest"), string(body))
						}
						return nil
					}})
				}
			}
		}
		specs = append(specs, &h.SeqSpec{
			Name: "c01-manifests-" + store,
			Conf: &h.Conf{Name: store, Store: store},
			Init: func(w *h.World) {
				w.M = NewSessModel()
				for _, b := range []string{"c", "l1"} {
					mustStatus(w.PushBlob("a", f.Items[b].Data, f.Items[b].Dig), 201)
				}
			},
			Ops:   mops,
			Model: func(w *h.World) string { return sessM(w).String() },
			Probe: func(w *h.World) []h.Violation {
				return c01HashInvariant(w, []string{"a"}, mdig, []string{"t"})
			},
			NonTriv:  func(w *h.World) bool { return len(sessM(w).Blobs) > 0 },
			MaxDepth: 3,
		})
	}
	return specs
}

// c01Scenarios: requests racing on upload sessions; at quiescence everything served or stored hashes to its digest.
func c01Scenarios(tier string) []*h.Scenario {
	var digests []string
	for _, c := range c01Contents() {
		for _, a := range []string{"sha256", "sha512", "sha384"} {
			digests = append(digests, dg(a, []byte(c)))
		}
	}
	type sess struct{ path, state string }
	open := func(w *h.World, slot, chunk string) {
		r := w.Do(h.Req{Method: "POST", Path: "/v2/a/blobs/uploads/"})
		p, st := parseLocation(r.H.Get("Location"))
		if chunk != "" {
			r = w.Do(h.Req{Method: "PATCH", Path: p, Query: "state=" + st, Body: []byte(chunk)})
			_, st = parseLocation(r.H.Get("Location"))
		}
		w.M.(map[string]sess)[slot] = sess{p, st}
	}
	put := func(slot, last, alg, content string) h.Step {
		return h.Step{Name: fmt.Sprintf("PUT %s last=%q digest=%s(%q)", slot, last, alg, content), Do: func(w *h.World) string {
			s := w.M.(map[string]sess)[slot]
			r := w.DoNoQuiesce(h.Req{Method: "PUT", Path: s.path, Query: "state=" + s.state + "&digest=" + url.QueryEscape(dg(alg, []byte(content))), Body: []byte(last)})
			return fmt.Sprint(r.Status)
		}}
	}
	patch := func(slot, chunk string) h.Step {
		return h.Step{Name: fmt.Sprintf("PATCH %s %q", slot, chunk), Do: func(w *h.World) string {
			s := w.M.(map[string]sess)[slot]
			r := w.DoNoQuiesce(h.Req{Method: "PATCH", Path: s.path, Query: "state=" + s.state, Body: []byte(chunk)})
			return fmt.Sprint(r.Status)
		}}
	}
	bound := 2
	if tier == "thorough" {
		bound = 3
	}
	var out []*h.Scenario
	for _, store := range []string{"mem", "dir"} {
		store := store
		add := func(name string, prefix func(w *h.World), threads [][]h.Step) {
			out = append(out, &h.Scenario{
				Name:           "c01-" + store + "-" + name,
				Conf:           &h.Conf{Name: store, Store: store},
				Prefix:         func(w *h.World) { w.M = map[string]sess{}; prefix(w) },
				Threads:        threads,
				Bound:          bound,
				IgnoreDeadlock: true,
				Final:          func(w *h.World) string { return "" },
				Extra: func(w *h.World, res [][]string, final string) []h.Violation {
					return c01HashInvariant(w, []string{"a"}, digests, nil)
				},
			})
		}
		add("completion-with-algorithm-switch-vs-chunk-on-the-same-session", func(w *h.World) { open(w, "s1", "x") },
			[][]h.Step{{put("s1", "", "sha512", "x")}, {patch("s1", "y")}})
		// a still empty session: the completion switches the algorithm without a rescan
		add("completion-with-algorithm-switch-on-an-empty-session-vs-chunk", func(w *h.World) { open(w, "s1", "") },
			[][]h.Step{{put("s1", "x", "sha512", "x")}, {patch("s1", "y")}})
		// two completions of one still empty session that both switch the algorithm: each has decided to switch before the
		// other wrote (a stale decision acted upon after the first bytes arrived)
		add("two-completions-with-algorithm-switch-on-the-same-empty-session", func(w *h.World) { open(w, "s1", "") },
			[][]h.Step{{put("s1", "x", "sha512", "x")}, {put("s1", "y", "sha512", "y")}})
		add("two-completions-with-different-algorithm-switches-on-the-same-empty-session", func(w *h.World) { open(w, "s1", "") },
			[][]h.Step{{put("s1", "x", "sha512", "x")}, {put("s1", "y", "sha384", "y")}})
		add("completion-vs-cancel-of-the-same-session", func(w *h.World) { open(w, "s1", "x") },
			[][]h.Step{{put("s1", "y", "sha256", "xy")}, {h.Step{Name: "DELETE s1", Do: func(w *h.World) string {
				s := w.M.(map[string]sess)["s1"]
				return fmt.Sprint(w.DoNoQuiesce(h.Req{Method: "DELETE", Path: s.path}).Status)
			}}}})
		add("completion-vs-chunk-on-the-same-session", func(w *h.World) { open(w, "s1", "x") },
			[][]h.Step{{put("s1", "", "sha256", "x")}, {patch("s1", "y")}})
		add("two-sessions-completing-to-the-same-digest", func(w *h.World) { open(w, "s1", "x"); open(w, "s2", "x") },
			[][]h.Step{{put("s1", "", "sha256", "x")}, {put("s2", "", "sha256", "x")}})
		if tier == "thorough" {
			add("two-sessions-different-content-one-reader", func(w *h.World) { open(w, "s1", "x"); open(w, "s2", "y") },
				[][]h.Step{{put("s1", "y", "sha256", "xy")}, {put("s2", "x", "sha512", "yx")}, {h.Step{Name: "GET sha256(xy)", Do: func(w *h.World) string {
					d := dg("sha256", []byte("xy"))
					r := w.DoNoQuiesce(h.Req{Method: "GET", Path: "/v2/a/blobs/" + d})
					if r.Status == 200 && !digestMatches(d, r.Body) {
						return "200 WRONG BYTES " + string(r.Body)
					}
					return fmt.Sprint(r.Status)
				}}}})
		}
	}
	return out
}

func init() {
	h.RegisterSched(&h.SchedCheck{ID: "C01sched", Level: "model_checking", Scenarios: c01Scenarios, Budget: func(tier string) time.Duration {
		if tier == "thorough" {
			return 5 * time.Minute
		}
		return 45 * time.Second
	}})
	delete(h.Checks, "C01sched")
	h.RegisterSeq(&h.SeqCheck{
		ID:    "C01",
		Level: "model_checking",
		Rule: "breadth-first search over all histories (bounded depth) of the upload protocols: monolithic POST, sessions with chunked PATCH and PUT (right digest under each algorithm, digest of other content), digest-algorithm at creation, algorithm switch at completion, cross-repository mount (with and without source), " +
			"and manifest PUT by tag / digest / ?digest= with right and wrong digests; in every distinct state every digest of the universe is fetched from both endpoints of both repositories and every stored blob (directory files, memory map) is re-hashed; non-trivial = at least one upload acknowledged",
		Assume: []string{"contents over {x,y} up to length 3; algorithms sha256/sha512 (quick) + sha384 (thorough)", "a ?digest= parameter that is ignored because the reference is itself a digest is not demanded to be checked"},
		Specs:  c01Specs,
		Budget: func(tier string) time.Duration {
			if tier == "thorough" {
				return 10 * time.Minute
			}
			return 70 * time.Second
		},
	})
	h.Checks["C01"] = func(tier string) int {
		c := h.SeqChecks["C01"]
		rep := h.NewReport("C01", tier, c.Level)
		rep.Rule = c.Rule + "; plus 8 scenarios per store explored over all interleavings up to the preemption bound (a completion with and without an algorithm switch racing with a chunk on the same session, the switch on a still empty session, two completions that both switch the algorithm of one empty session, a completion racing with the cancellation of its session, two sessions completing to the same digest, two completions racing with a reader): the same hash invariant at quiescence and on every racing read"
		rep.Assume = c.Assume
		h.RunSeqInto(rep, "C01", tier, time.Time{})
		h.RunSchedInto(rep, "C01sched", tier)
		return rep.Emit()
	}
}
