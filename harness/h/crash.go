package h

import (
	"encoding/json"
	"fmt"
	"sort"
	"strings"
	"syscall"
	"time"

	"github.com/olareg/olareg"
	"github.com/olareg/olareg/internal/verif/vos"
	"github.com/olareg/olareg/internal/verif/vrt"
)

// CRASH: for a history of operations on the directory store, every mutating filesystem call is a
// crash point (the process dies before it is issued) and every write is additionally torn after
// 0, n/2 and n-1 bytes. After each crash the in-memory server is discarded without Close, a new
// server is opened on the directory and the recovery oracle runs.

type CrashSpec struct {
	Name      string
	Conf      *Conf
	RC        vrt.Config
	Init      func(w *World)
	Ops       []Op
	Histories [][]int
	ModelJSON func(w *World) string // serialise the model after an operation
	Recover   func(w *World, before, after string, interrupted string) []Violation
	// Faults: additionally, every mutating call returns an I/O error instead (the process lives on and finishes the
	// request, then dies at the request boundary); the same recovery oracle runs after the reopen.
	Faults bool
}

type CrashCheck struct {
	ID     string
	Rule   string
	Assume []string
	Specs  func(tier string) []*CrashSpec
	Budget func(tier string) time.Duration
}

var CrashChecks = map[string]*CrashCheck{}

func RegisterCrash(c *CrashCheck) {
	CrashChecks[c.ID] = c
	id := c.ID
	if _, ok := Checks[id]; !ok {
		Checks[id] = func(tier string) int { return RunCrash(id, tier) }
	}
	Replayers[id] = func(tier string, v Violation) int { return ReplayCrash(id, tier, v) }
}

type crashArg struct {
	ID      string `json:"id"`
	Tier    string `json:"tier"`
	Spec    int    `json:"spec"`
	Hist    int    `json:"hist"`
	Only    []int  `json:"only,omitempty"` // replay: [k, cut]
	Verbose bool   `json:"verbose,omitempty"`
}

type crashOut struct {
	Points   int         `json:"points"`   // mutating calls of the history
	Images   int         `json:"images"`   // crash images examined
	Faulted  int         `json:"faulted"`  // runs with an injected I/O error
	Distinct int         `json:"distinct"` // distinct recovered states (tree hashes)
	Viol     []Violation `json:"viol,omitempty"`
	Sample   []string    `json:"sample,omitempty"`
	Trace    []string    `json:"trace,omitempty"`
}

var crashSpecCache = map[string][]*CrashSpec{}

func getCrashSpecs(id, tier string) []*CrashSpec {
	k := id + "/" + tier
	if s, ok := crashSpecCache[k]; ok {
		return s
	}
	s := CrashChecks[id].Specs(tier)
	crashSpecCache[k] = s
	return s
}

func init() {
	RegisterJob("crash", func(arg json.RawMessage) (any, error) {
		var a crashArg
		if err := json.Unmarshal(arg, &a); err != nil {
			return nil, err
		}
		sp := getCrashSpecs(a.ID, a.Tier)[a.Spec]
		return sp.runHistory(a.Hist, a.Only, a.Verbose), nil
	})
}

func (sp *CrashSpec) histNames(hi int) []string {
	var out []string
	for _, k := range sp.Histories[hi] {
		out = append(out, sp.Ops[k].Name)
	}
	return out
}

type crashPlan struct {
	ops   []vos.Op // mutating calls in order
	opOf  []int    // history position of each mutating call
	snaps []string // model after Init, after op 0, after op 1, ...
}

// dry runs the history uninterrupted and records the mutating calls and the model snapshots.
func (sp *CrashSpec) dry(hi int) (plan crashPlan, viol []Violation) {
	w := NewWorld(sp.Conf, sp.RC)
	defer w.Destroy()
	if sp.Init != nil {
		sp.Init(w)
	}
	base := vos.MutCount()
	plan.snaps = append(plan.snaps, sp.ModelJSON(w))
	for pos, k := range sp.Histories[hi] {
		before := vos.MutCount()
		vs := sp.Ops[k].Do(w)
		vrt.Quiesce()
		for _, v := range append(vs, w.AutoViol...) {
			v.History = sp.histNames(hi)
			v.Conf = sp.Name
			viol = append(viol, v)
		}
		w.AutoViol = nil
		for i := before; i < vos.MutCount(); i++ {
			plan.opOf = append(plan.opOf, pos)
		}
		plan.snaps = append(plan.snaps, sp.ModelJSON(w))
	}
	for _, o := range vos.Log() {
		if o.Mut && o.Seq > base {
			plan.ops = append(plan.ops, o)
		}
	}
	return plan, viol
}

func (sp *CrashSpec) runHistory(hi int, only []int, verbose bool) crashOut {
	out := crashOut{}
	plan, viol := sp.dry(hi)
	out.Viol = viol
	out.Points = len(plan.ops)
	states := map[string]bool{}
	for k := 1; k <= len(plan.ops); k++ {
		op := plan.ops[k-1]
		cuts := []int{-1}
		if op.Kind == "write" || op.Kind == "writefile" {
			for _, c := range []int{0, op.N / 2, op.N - 1} {
				if c >= 0 && c < op.N {
					dup := false
					for _, x := range cuts {
						if x == c {
							dup = true
						}
					}
					if !dup {
						cuts = append(cuts, c)
					}
				}
			}
		}
		// (only inside the last request of the history: the set of histories is prefix closed, an error inside an earlier
		// request is the last request of a shorter history)
		if sp.Faults && plan.opOf[k-1] == len(sp.Histories[hi])-1 && (only == nil || (len(only) > 2 && only[2] == 1 && only[0] == k)) {
			vs, tree, trace := sp.faultOnce(hi, plan, k, verbose)
			out.Faulted++
			states[tree] = true
			for _, v := range vs {
				v.Conf = sp.Name
				v.History = sp.histNames(hi)
				if v.Extra == nil {
					v.Extra = map[string]any{}
				}
				v.Extra["crash_before_call"] = k
				v.Extra["cut"] = -1
				v.Extra["fault"] = 1
				v.Extra["call"] = fmt.Sprintf("%s %s", op.Kind, op.Path)
				v.Extra["hist"] = hi
				out.Viol = append(out.Viol, v)
			}
			if verbose {
				out.Trace = append(out.Trace, trace...)
			}
		}
		if len(only) > 2 && only[2] == 1 {
			continue
		}
		for _, cut := range cuts {
			if only != nil && (only[0] != k || only[1] != cut) {
				continue
			}
			vs, tree, trace := sp.crashOnce(hi, plan, k, cut, verbose)
			out.Images++
			states[tree] = true
			for _, v := range vs {
				v.Conf = sp.Name
				v.History = sp.histNames(hi)
				if v.Extra == nil {
					v.Extra = map[string]any{}
				}
				v.Extra["crash_before_call"] = k
				v.Extra["cut"] = cut
				v.Extra["call"] = fmt.Sprintf("%s %s", op.Kind, op.Path)
				v.Extra["hist"] = hi
				out.Viol = append(out.Viol, v)
			}
			if verbose {
				out.Trace = append(out.Trace, trace...)
			}
		}
	}
	out.Distinct = len(states)
	if len(plan.ops) > 0 {
		var calls []string
		for i, o := range plan.ops {
			calls = append(calls, fmt.Sprintf("%d:%s %s", i+1, o.Kind, shortPath(o.Path)))
		}
		out.Sample = calls
	}
	return out
}

func shortPath(p string) string {
	if i := strings.Index(p, "verif-w-"); i >= 0 {
		if j := strings.Index(p[i:], "/"); j >= 0 {
			return p[i+j:]
		}
	}
	return p
}

// crashOnce re-runs the history on a fresh directory, crashes at (k, cut), reopens and runs the oracle.
func (sp *CrashSpec) crashOnce(hi int, plan crashPlan, k, cut int, verbose bool) (viol []Violation, tree string, trace []string) {
	w := NewWorld(sp.Conf, sp.RC)
	defer w.Destroy()
	w.Verbose = verbose
	if sp.Init != nil {
		sp.Init(w)
	}
	base := vos.MutCount()
	vos.CrashAt(base+k, cut)
	crashed := false
	pos := 0
	func() {
		defer func() {
			if p := recover(); p != nil {
				if !vrt.IsAbort(p) {
					panic(p)
				}
				crashed = true
			}
		}()
		for i, opk := range sp.Histories[hi] {
			pos = i
			sp.Ops[opk].Do(w)
			vrt.Quiesce()
		}
	}()
	if !crashed || !vos.Crashed() {
		// the run took another path than the dry run (must not happen: executions are deterministic)
		return []Violation{V("determinism", "crash-point-not-reached", "crash point %d (cut %d) was not reached when the history was re-run", k, cut)}, "", nil
	}
	// the process is dead: unwind what is left of it, close its descriptors, keep the directory
	func() {
		defer func() { _ = recover() }()
		vrt.Abort(vrt.AbortCrash)
	}()
	vos.CloseAllOpen()
	now := vrt.NowNanos()
	vrt.Reset(sp.RC)
	vos.Reset(true)
	vrt.SetClock(now + int64(time.Second))
	w.S = olareg.New(w.Cfg)
	w.Dead = ""
	w.AutoViol = nil
	vrt.Quiesce()
	interrupted := sp.Ops[sp.Histories[hi][pos]].Name
	if verbose {
		w.Trace = append(w.Trace, fmt.Sprintf("== CRASH before mutating call %d (cut %d) inside %q; reopened", k, cut, interrupted))
	}
	viol = sp.Recover(w, plan.snaps[pos], plan.snaps[pos+1], interrupted)
	viol = append(viol, w.AutoViol...)
	tree = HashStr(DumpTree(w.Dir))
	return viol, tree, w.Trace
}

// faultOnce re-runs the history on a fresh directory with mutating call k failing (EIO); the interrupted request runs to
// its end, the process dies at the request boundary, a new server opens the directory and the recovery oracle runs.
func (sp *CrashSpec) faultOnce(hi int, plan crashPlan, k int, verbose bool) (viol []Violation, tree string, trace []string) {
	w := NewWorld(sp.Conf, sp.RC)
	defer w.Destroy()
	w.Verbose = verbose
	if sp.Init != nil {
		sp.Init(w)
	}
	base := vos.MutCount()
	vos.FailAt(base+k, syscall.EIO)
	pos := plan.opOf[k-1]
	hung := false
	func() {
		defer func() {
			if p := recover(); p != nil {
				if !vrt.IsAbort(p) {
					panic(p)
				}
				hung = true
			}
		}()
		for i, opk := range sp.Histories[hi] {
			if i > pos {
				break
			}
			sp.Ops[opk].Do(w)
			vrt.Quiesce()
		}
	}()
	interrupted := sp.Ops[sp.Histories[hi][pos]].Name
	if hung {
		sig, detail := AbortSignature()
		return []Violation{V("no-hang-after-io-error", "after-io-error:hang:"+sig, "after an I/O error at mutating call %d inside %q the registry never returns: %s", k, interrupted, detail)}, "", w.Trace
	}
	for _, v := range w.AutoViol {
		if strings.HasPrefix(v.Sig, "panic") {
			v.Sig = "after-io-error:" + v.Sig
			viol = append(viol, v)
		}
	}
	// the process dies at the request boundary: unwind, close descriptors, keep the directory
	func() {
		defer func() { _ = recover() }()
		vrt.Abort(vrt.AbortCrash)
	}()
	vos.CloseAllOpen()
	now := vrt.NowNanos()
	vrt.Reset(sp.RC)
	vos.Reset(true)
	vrt.SetClock(now + int64(time.Second))
	w.S = olareg.New(w.Cfg)
	w.Dead = ""
	w.AutoViol = nil
	vrt.Quiesce()
	if verbose {
		w.Trace = append(w.Trace, fmt.Sprintf("== I/O ERROR at mutating call %d inside %q; request finished, process killed, reopened", k, interrupted))
	}
	for _, v := range sp.Recover(w, plan.snaps[pos], plan.snaps[pos+1], interrupted) {
		v.Sig = "after-io-error:" + v.Sig
		viol = append(viol, v)
	}
	viol = append(viol, w.AutoViol...)
	tree = HashStr(DumpTree(w.Dir))
	return viol, tree, w.Trace
}

// RunCrash is the coordinator of a CRASH check.
func RunCrash(id, tier string) int {
	c := CrashChecks[id]
	rep := NewReport(id, tier, "fault_enumeration")
	rep.Rule = c.Rule
	rep.Assume = c.Assume
	RunCrashInto(rep, id, tier)
	return rep.Emit()
}

func RunCrashInto(rep *Report, id, tier string) {
	c := CrashChecks[id]
	specs := getCrashSpecs(id, tier)
	budget := 10 * time.Minute
	if c.Budget != nil {
		budget = c.Budget(tier)
	}
	deadline := time.Now().Add(budget)
	pool := NewPool(workers())
	defer pool.Close()
	for si, sp := range specs {
		var jobs []Job
		for hi := range sp.Histories {
			jobs = append(jobs, MkJob("crash", crashArg{ID: id, Tier: tier, Spec: si, Hist: hi}))
		}
		// determinism self-test: the first history twice
		if len(jobs) > 0 {
			jobs = append(jobs, jobs[0])
		}
		res := pool.Run(jobs, func() bool { return time.Now().After(deadline) })
		if len(res) > 1 {
			a, b := res[0], res[len(res)-1]
			if a.Error == "" && b.Error == "" && string(a.Out) != string(b.Out) {
				rep.Infra("nondeterministic replay in %s: the same history gave different crash results", sp.Name)
			}
			res = res[:len(res)-1]
		}
		skipped, points, images, distinct, faulted := 0, 0, 0, 0, 0
		for hi, jr := range res {
			if IsSkipped(jr) {
				skipped++
				continue
			}
			if jr.Died {
				v := V("no-fatal-error", "process-death:"+deathSig(jr.Log), "the worker died while enumerating the crash points of this history: %s\n%s", jr.Error, tail(jr.Log, 1500))
				v.Conf = sp.Name
				v.History = sp.histNames(hi)
				rep.AddViolation(v)
				continue
			}
			var co crashOut
			if !decode(rep, jr, &co) {
				continue
			}
			points += co.Points
			images += co.Images + co.Faulted
			faulted += co.Faulted
			distinct += co.Distinct
			for _, v := range co.Viol {
				rep.AddViolation(v)
			}
			if len(rep.Samples) < 4 && len(co.Sample) > 0 {
				rep.Samples = append(rep.Samples, map[string]any{"spec": sp.Name, "history": sp.histNames(hi), "mutating_calls": clip(co.Sample, 60)})
			}
		}
		if skipped > 0 {
			rep.Cap("%s: time budget reached, %d of %d histories not enumerated", sp.Name, skipped, len(sp.Histories))
		}
		rep.Evals += images
		rep.Traces += images
		rep.Trans += points
		rep.States += distinct
		rep.NonTrivial += distinct
		rep.Parts = append(rep.Parts, map[string]any{"spec": sp.Name, "histories": len(sp.Histories), "crash_points": points, "crash_images": images - faulted, "io_error_runs": faulted, "distinct_recovered_trees": distinct})
	}
	var names []string
	if len(specs) > 0 {
		for _, o := range specs[0].Ops {
			names = append(names, o.Name)
		}
		sort.Strings(names)
		rep.Bounds["alphabet"] = names
	}
}

// ReplayCrash re-executes one crash image verbosely.
func ReplayCrash(id, tier string, v Violation) int {
	specs := getCrashSpecs(id, tier)
	for _, sp := range specs {
		if sp.Name != v.Conf {
			continue
		}
		hi := -1
		if x, ok := v.Extra["hist"].(float64); ok {
			hi = int(x)
		}
		if hi < 0 || hi >= len(sp.Histories) {
			fmt.Println("history index missing in the artefact")
			return 2
		}
		k, _ := v.Extra["crash_before_call"].(float64)
		cut, _ := v.Extra["cut"].(float64)
		mode := 0
		if x, ok := v.Extra["fault"].(float64); ok && x == 1 {
			mode = 1
		}
		out := sp.runHistory(hi, []int{int(k), int(cut), mode}, true)
		for _, l := range out.Trace {
			fmt.Println(l)
		}
		for _, x := range out.Viol {
			fmt.Printf("VIOLATION property=%s rule=%s sig=%s\n  %s\n", id, x.Rule, x.Sig, indent(x.Detail))
		}
		if len(out.Viol) > 0 {
			return 1
		}
		return 0
	}
	fmt.Println("spec not found:", v.Conf)
	return 2
}
