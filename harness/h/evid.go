package h

import (
	"bufio"
	"encoding/json"
	"fmt"
	"os"
	"path/filepath"
	"sort"
	"strconv"
	"strings"
	"syscall"
	"time"
)

var sigQuit = syscall.SIGQUIT

// VerifDir is /verif (overridable for snapshots started by `vp run`).
var VerifDir = func() string {
	if d := os.Getenv("VERIF_DIR"); d != "" {
		return d
	}
	return "/verif"
}()

// OutDir is where evidence/ and replays/ are written (VERIF_OUT overrides it, for runs against scratch copies of
// the repository whose results must not replace the evidence of the real tree).
var OutDir = func() string {
	if d := os.Getenv("VERIF_OUT"); d != "" {
		return d
	}
	return VerifDir
}()

// Violation is one counterexample. Sig is its shape signature: the key that known findings
// are matched against (never a whole property, never a line number).
type Violation struct {
	Property string         `json:"property"`
	Rule     string         `json:"rule"`
	Sig      string         `json:"sig"`
	Detail   string         `json:"detail"`
	Conf     string         `json:"conf,omitempty"`
	History  []string       `json:"history,omitempty"`
	Extra    map[string]any `json:"extra,omitempty"`
}

func V(rule, sig, format string, a ...any) Violation {
	return Violation{Rule: rule, Sig: sig, Detail: fmt.Sprintf(format, a...)}
}

// Known findings ---------------------------------------------------------------------------

type knownFinding struct {
	Property string
	Key      string
	Text     string
}

// LoadKnown reads /verif/known_findings.txt. Lines: "finding: property=<ID> key=<sig> <text>"
// (suppresses violations of that property with exactly that signature; a trailing * in the key
// matches any suffix) and "fixed: property=<ID> <commit> <text>" (suppresses nothing).
func LoadKnown() []knownFinding {
	f, err := os.Open(filepath.Join(VerifDir, "known_findings.txt"))
	if err != nil {
		return nil
	}
	defer f.Close()
	var out []knownFinding
	sc := bufio.NewScanner(f)
	sc.Buffer(make([]byte, 1<<20), 1<<20)
	for sc.Scan() {
		ln := strings.TrimSpace(sc.Text())
		if !strings.HasPrefix(ln, "finding:") {
			continue
		}
		kf := knownFinding{}
		rest := strings.Fields(strings.TrimPrefix(ln, "finding:"))
		var text []string
		for _, w := range rest {
			switch {
			case strings.HasPrefix(w, "property=") && kf.Property == "":
				kf.Property = strings.TrimPrefix(w, "property=")
			case strings.HasPrefix(w, "key=") && kf.Key == "":
				kf.Key = strings.TrimPrefix(w, "key=")
			default:
				text = append(text, w)
			}
		}
		kf.Text = strings.Join(text, " ")
		if kf.Property != "" && kf.Key != "" {
			out = append(out, kf)
		}
	}
	return out
}

func matchKnown(kfs []knownFinding, v Violation) *knownFinding {
	for i := range kfs {
		k := &kfs[i]
		if k.Property != v.Property {
			continue
		}
		if k.Key == v.Sig || (strings.HasSuffix(k.Key, "*") && strings.HasPrefix(v.Sig, strings.TrimSuffix(k.Key, "*"))) {
			return k
		}
	}
	return nil
}

// Report -------------------------------------------------------------------------------------

// Report accumulates what a check run covered and found.
type Report struct {
	Property   string
	Tier       string
	Level      string // model_checking | fault_enumeration
	Start      time.Time
	States     int
	Trans      int
	Traces     int
	Evals      int
	NonTrivial int
	Rule       string
	Samples    []any
	Exhaustive bool
	Caps       []string
	Bounds     map[string]any
	Assume     []string
	Viol       []Violation
	KnownHits  map[string]int
	InfraErr   []string
	Parts      []map[string]any
	Outcomes   int
}

func NewReport(prop, tier, level string) *Report {
	return &Report{Property: prop, Tier: tier, Level: level, Start: time.Now(), Exhaustive: true, Bounds: map[string]any{}, KnownHits: map[string]int{}}
}

func (r *Report) AddViolation(v Violation) {
	if v.Property == "" {
		v.Property = r.Property
	}
	r.Viol = append(r.Viol, v)
}

func (r *Report) Cap(format string, a ...any) {
	r.Exhaustive = false
	r.Caps = append(r.Caps, fmt.Sprintf(format, a...))
}

func (r *Report) Infra(format string, a ...any) {
	r.InfraErr = append(r.InfraErr, fmt.Sprintf(format, a...))
}

func seedEnv() int {
	n, _ := strconv.Atoi(os.Getenv("VERIF_SEED"))
	return n
}

// Emit writes the evidence file and replay artefacts, prints VIOLATION / KNOWN-FINDING lines
// and returns the exit status (0 held, 1 violation, 2 infrastructure error).
func (r *Report) Emit() int {
	kfs := LoadKnown()
	// group violations by signature
	bySig := map[string][]Violation{}
	var order []string
	for _, v := range r.Viol {
		k := v.Property + "|" + v.Sig
		if _, ok := bySig[k]; !ok {
			order = append(order, k)
		}
		bySig[k] = append(bySig[k], v)
	}
	sort.Strings(order)
	newViol := 0
	_ = os.MkdirAll(filepath.Join(OutDir, "replays"), 0o755)
	_ = os.MkdirAll(filepath.Join(OutDir, "evidence"), 0o755)
	var vsum []map[string]any
	n := 0
	for _, k := range order {
		vs := bySig[k]
		// shortest history first
		sort.SliceStable(vs, func(i, j int) bool { return len(vs[i].History) < len(vs[j].History) })
		v := vs[0]
		if kf := matchKnown(kfs, v); kf != nil {
			fmt.Printf("KNOWN-FINDING: property=%s key=%s %s (%d occurrences this run)\n", v.Property, v.Sig, kf.Text, len(vs))
			r.KnownHits[v.Sig] += len(vs)
			if dir := os.Getenv("VERIF_KNOWN_REPLAYS"); dir != "" {
				// a replayable artefact of the shortest occurrence of a known finding (committed under findings/)
				_ = os.MkdirAll(dir, 0o755)
				name := strings.Map(func(c rune) rune {
					if c >= 'a' && c <= 'z' || c >= 'A' && c <= 'Z' || c >= '0' && c <= '9' || c == '-' || c == '.' {
						return c
					}
					return '_'
				}, v.Sig)
				if len(name) > 120 {
					name = name[:120]
				}
				art := map[string]any{"check": r.Property, "tier": r.Tier, "violation": v, "occurrences": len(vs), "known_finding": kf.Key}
				b, _ := json.MarshalIndent(art, "", " ")
				_ = os.WriteFile(filepath.Join(dir, fmt.Sprintf("%s-%s.json", v.Property, name)), b, 0o644)
			}
			continue
		}
		n++
		path := filepath.Join(OutDir, "replays", fmt.Sprintf("%s-%d.json", r.Property, n))
		art := map[string]any{"check": r.Property, "tier": r.Tier, "violation": v, "occurrences": len(vs)}
		b, _ := json.MarshalIndent(art, "", " ")
		_ = os.WriteFile(path, b, 0o644)
		fmt.Printf("VIOLATION property=%s replay=%s\n", v.Property, path)
		fmt.Printf("  rule=%s sig=%s conf=%s\n  history=%v\n  %s\n", v.Rule, v.Sig, v.Conf, v.History, indent(v.Detail))
		vsum = append(vsum, map[string]any{"sig": v.Sig, "rule": v.Rule, "occurrences": len(vs), "replay": path})
		newViol++
	}
	cov := map[string]any{
		"states":                        r.States,
		"transitions":                   r.Trans,
		"traces_validated_against_impl": r.Traces,
		"evaluations":                   r.Evals,
		"distinct_nontrivial":           r.NonTrivial,
		"rule":                          r.Rule,
		"samples":                       r.Samples,
		"exhaustive":                    r.Exhaustive && len(r.InfraErr) == 0,
		"caps_hit":                      r.Caps,
		"bounds":                        r.Bounds,
		"known_finding_hits":            r.KnownHits,
		"distinct_outcomes":             r.Outcomes,
		"parts":                         r.Parts,
		"violation_summary":             vsum,
		"infrastructure_errors":         r.InfraErr,
	}
	if len(r.Samples) == 0 {
		cov["samples"] = []any{"(no case was executed)"}
	}
	ev := map[string]any{
		"property_id": r.Property,
		"tier":        r.Tier,
		"seed":        seedEnv(),
		"level":       r.Level,
		"coverage":    cov,
		"assumptions": r.Assume,
		"wall_s":      time.Since(r.Start).Seconds(),
		"violations":  newViol,
	}
	b, _ := json.MarshalIndent(ev, "", " ")
	_ = os.WriteFile(filepath.Join(OutDir, "evidence", r.Property+".json"), b, 0o644)
	fmt.Printf("%s %s: states=%d transitions=%d executions=%d nontrivial=%d exhaustive=%v caps=%v known=%v violations=%d wall=%.1fs\n",
		r.Property, r.Tier, r.States, r.Trans, r.Traces, r.NonTrivial, cov["exhaustive"], r.Caps, r.KnownHits, newViol, time.Since(r.Start).Seconds())
	if newViol > 0 {
		return 1
	}
	if len(r.InfraErr) > 0 {
		for _, e := range r.InfraErr {
			fmt.Fprintln(os.Stderr, "INFRASTRUCTURE ERROR:", indent(e))
		}
		return 2
	}
	return 0
}

func indent(s string) string { return strings.ReplaceAll(s, "\n", "\n    ") }
