package checks

import (
	"encoding/json"
	"fmt"
	"os"
	"os/exec"
	"path/filepath"
	"strings"
	"time"

	"github.com/olareg/olareg/config"
	"github.com/olareg/olareg/internal/verif/h"
	"github.com/olareg/olareg/internal/verif/vrt"
)

// C19 — every setting has its documented effect, for every combination.
// Part 1 (here): the rate limit as an explicit-state search with the virtual clock.
// Part 2: the flag space, the other flags and termination, executed inside a build of cmd/olareg (harness/c19).

type c19Bucket struct {
	First int64
	Count int
}

type c19Model struct {
	B map[string]*c19Bucket
}

func c19RateSpecs(tier string) []*h.SeqSpec {
	limits := []int{1, 2}
	depth := 7
	if tier == "thorough" {
		limits = []int{1, 2, 3}
		depth = 9
	}
	var specs []*h.SeqSpec
	for _, store := range []string{"mem"} {
		for _, n := range limits {
			n := n
			mdl := func(w *h.World) *c19Model { return w.M.(*c19Model) }
			var ops []h.Op
			req := func(name, ip, remote, xff string) {
				ops = append(ops, h.Op{Name: name, Do: func(w *h.World) []h.Violation {
					hd := map[string]string{}
					if xff != "" {
						hd["X-Forwarded-For"] = xff
					}
					r := w.Do(h.Req{Method: "GET", Path: "/v2/", Remote: remote, Header: hd})
					m := mdl(w)
					now := vrt.NowNanos()
					b := m.B[ip]
					if b == nil || now-b.First > int64(time.Second) {
						b = &c19Bucket{First: now, Count: 0}
						m.B[ip] = b
					}
					b.Count++
					wantServed := b.Count <= n
					var vs []h.Violation
					switch {
					case wantServed && r.Status != 200:
						vs = append(vs, h.V("other-requests-unaffected", "request-within-limit-refused", "request %d of %s in its accounting second (limit %d) answered %s", b.Count, ip, n, r))
					case !wantServed && r.Status != 429:
						vs = append(vs, h.V("limit-enforced", "request-over-limit-served", "request %d of %s in its accounting second (limit %d) answered %s", b.Count, ip, n, r))
					case !wantServed && r.H.Get("Retry-After") == "":
						vs = append(vs, h.V("retry-after", "no-retry-after-on-429", "429 without Retry-After"))
					}
					return vs
				}})
			}
			req("request from A", "10.0.0.1", "10.0.0.1:1111", "")
			req("request from B", "10.0.0.2", "10.0.0.2:2222", "")
			req("request from A through a proxy (X-Forwarded-For)", "10.0.0.1", "10.9.9.9:1", "10.0.0.1")
			for _, d := range []time.Duration{400 * time.Millisecond, time.Second, time.Second + 1, 11 * time.Second} {
				d := d
				ops = append(ops, h.Op{Name: fmt.Sprintf("advance %v", d), Do: func(w *h.World) []h.Violation { vrt.Advance(d, false); return nil }})
			}
			specs = append(specs, &h.SeqSpec{
				Name: fmt.Sprintf("c19-ratelimit-%s-%d", store, n),
				Conf: &h.Conf{Name: store, Store: store, Mod: func(c *config.Config) { c.API.RateLimit = n }},
				Init: func(w *h.World) { w.M = &c19Model{B: map[string]*c19Bucket{}} },
				Ops:  ops,
				Model: func(w *h.World) string {
					m := mdl(w)
					var parts []string
					for _, k := range h.SortedKeys(m.B) {
						age := vrt.NowNanos() - m.B[k].First
						if age > int64(time.Second) {
							continue // an expired window has no future effect
						}
						parts = append(parts, fmt.Sprintf("%s:%d:%d", k, age, m.B[k].Count))
					}
					return strings.Join(parts, ",")
				},
				NonTriv:  func(w *h.World) bool { return len(mdl(w).B) > 0 },
				MaxDepth: depth,
				Chunk:    20,
			})
		}
	}
	return specs
}

type c19Viol struct {
	Rule   string   `json:"rule"`
	Sig    string   `json:"sig"`
	Detail string   `json:"detail"`
	Conf   string   `json:"conf"`
	Args   []string `json:"args"`
}

type c19Result struct {
	Points  int            `json:"points"`
	Probes  int            `json:"probes"`
	Viol    []c19Viol      `json:"viol"`
	Samples []string       `json:"samples"`
	Parts   map[string]int `json:"parts"`
}

func init() {
	h.RegisterSeq(&h.SeqCheck{ID: "C19rate", Level: "model_checking", Specs: c19RateSpecs, Budget: func(tier string) time.Duration {
		if tier == "thorough" {
			return 4 * time.Minute
		}
		return 40 * time.Second
	}})
	delete(h.Checks, "C19rate")
	h.Checks["C19"] = func(tier string) int {
		rep := h.NewReport("C19", tier, "model_checking")
		rep.Rule = "part 1 (rate limit): breadth-first search over all sequences (bounded depth) of requests from address A, from B and from A through X-Forwarded-For, and virtual time steps 400 ms, 1 s, 1 s + 1 ns, 11 s, for RateLimit in {1,2,3}, against the documented fixed window (more than one second since the first counted request starts a new window). " +
			"part 2 (flag space, inside a build of cmd/olareg with the real cobra command): every assignment of the 8 boolean serve flags to true / false plus each flag alone not given (quick: 273 assignments) or to {not given, true, false} (thorough: 6561) x store type {dir, mem}: the configuration the server holds and a fixed probe script (reads, referrers, blob upload, session, manifest and artifact push, manifest and blob delete, directory snapshot) are compared with a table written from the flag help texts and config.go; warnings (0-2), rate-limit, gc durations (not given / negative / positive), 'collection disabled' surviving shutdown; " +
			"part 3 (termination): a real SIGTERM after every prefix of a 6-request push history (incl. an open session): serve returns nil, the store is closed, a second run serves everything acknowledged from a valid layout; non-trivial = configuration points"
		rep.Assume = []string{"TLS flags, address binding and verbosity are not covered", "the signal is delivered between requests (the Run/Shutdown hand-shake race before the listener is registered is not explored)"}
		h.RunSeqInto(rep, "C19rate", tier, time.Time{})
		// part 2 and 3: the cmd/olareg build
		exe := filepath.Join(filepath.Dir(os.Args[0]), "olareg-verif")
		cmd := exec.Command(exe)
		cmd.Env = append(os.Environ(), "VERIF_C19="+tier)
		out, err := cmd.Output()
		if err != nil {
			rep.Infra("the cmd/olareg build failed to run: %v\n%s", err, tailS(string(out), 2000))
			return rep.Emit()
		}
		var res c19Result
		found := false
		for _, ln := range strings.Split(string(out), "\n") {
			if strings.HasPrefix(ln, "C19RESULT ") {
				if err := json.Unmarshal([]byte(strings.TrimPrefix(ln, "C19RESULT ")), &res); err == nil {
					found = true
				}
			}
		}
		if !found {
			rep.Infra("no result from the cmd/olareg build:\n%s", tailS(string(out), 2000))
			return rep.Emit()
		}
		rep.States += res.Points
		rep.Trans += res.Probes
		rep.Evals += res.Probes
		rep.Traces += res.Points
		rep.NonTrivial += res.Points
		for _, s := range res.Samples {
			rep.Samples = append(rep.Samples, s)
		}
		rep.Parts = append(rep.Parts, map[string]any{"configuration_points": res.Points, "probes": res.Probes, "parts": res.Parts})
		for _, v := range res.Viol {
			rep.AddViolation(h.Violation{Rule: v.Rule, Sig: v.Sig, Detail: v.Detail, Conf: v.Conf, History: v.Args})
		}
		return rep.Emit()
	}
}

func tailS(s string, n int) string {
	if len(s) > n {
		return s[len(s)-n:]
	}
	return s
}
