#!/usr/bin/env python3
"""Regenerates /verif/MANIFEST.json from the table below (kept next to the checks so that the
manifest is always valid and current)."""
import json, os, sys

ALL = ["C%02d" % i for i in range(1, 21)]

# id -> (engine, level category, technique, level text, level note, design ref)
CHECKS = {}

def add(pid, engine, cat, technique, text, note, ref):
    CHECKS[pid] = dict(engine=engine, cat=cat, technique=technique, text=text, note=note, ref=ref)

exec(open(os.path.join(os.path.dirname(__file__), "checks_table.py")).read())

NOT_APPLICABLE = {}
for pid in ALL:
    if pid not in CHECKS:
        NOT_APPLICABLE[pid] = NA.get(pid, "check not built yet in this revision (work in progress; see DESIGN.md section 4 for the planned bounded exhaustive check)")

m = {
    "version": 1,
    "setup_cmd": "./setup.sh",
    "hooks": {
        "guard": "verif",
        "enable": "no hook commits in /repo: ./run rewrites the current working tree with bin/vrewrite into build/ov and builds with `go build -tags verif -overlay build/overlay.json ./cmd/verifcheck` (virtual packages under internal/verif)",
        "baseline_off_cmd": "cd /repo && GOFLAGS=-mod=mod go test -json -vet=off -count=1 -timeout 25m ./...",
        "source_commits": [],
        "add_only": True,
    },
    "engines": [
        {"name": "SEQ", "path": "harness/h/seq.go", "serves_properties": sorted(p for p, c in CHECKS.items() if "SEQ" in c["engine"]),
         "kind_free_text": "explicit-state breadth-first search over request histories executed on the real implementation under a deterministic runtime (virtual clock, timers, randomness, map order); canonical state fingerprint = deep dump of the server object graph + directory tree + model"},
        {"name": "SCHED", "path": "harness/h/sched.go", "serves_properties": sorted(p for p, c in CHECKS.items() if "SCHED" in c["engine"]),
         "kind_free_text": "stateless preemption-bounded DFS over thread interleavings of the real implementation under a cooperative scheduler (hooked sync/channel/select/fs operations), with a happens-before prefix cache"},
        {"name": "CRASH", "path": "harness/h/crash.go", "serves_properties": sorted(p for p, c in CHECKS.items() if "CRASH" in c["engine"]),
         "kind_free_text": "enumeration of every crash point and torn write of a filesystem history through the os shim, followed by reopen and a recovery oracle"},
        {"name": "CONF", "path": "harness/h/conf.go", "serves_properties": sorted(p for p, c in CHECKS.items() if "CONF" in c["engine"]),
         "kind_free_text": "enumeration of all points of a finite configuration space, each probed with a fixed script against a reference table"},
    ],
    "checks": [],
    "not_applicable": [{"property_id": p, "reason": r} for p, r in sorted(NOT_APPLICABLE.items())],
    "notes": "All checks are `./run <ID> <tier>`; exit 0 held, 1 violation (VIOLATION line), 2 infrastructure error. Known findings: known_findings.txt. Design: DESIGN.md.",
}
for pid in sorted(CHECKS):
    c = CHECKS[pid]
    m["checks"].append({
        "property_id": pid,
        "quick_cmd": "./run %s quick" % pid,
        "thorough_cmd": "./run %s thorough" % pid,
        "evidence_file": "/verif/evidence/%s.json" % pid,
        "replay_cmd_template": "./run %s --replay {path}" % pid,
        "engine": c["engine"],
        "level_claimed": {"category": c["cat"], "text": c["text"], "design_ref": c["ref"]},
        "level_note": c["note"],
        "technique": c["technique"],
    })
json.dump(m, open(os.path.join(os.path.dirname(__file__), "..", "MANIFEST.json"), "w"), indent=1)
print("MANIFEST.json: %d checks, %d not applicable" % (len(m["checks"]), len(m["not_applicable"])))
