// Package vtime shadows "time" in the instrumented build: the clock, timers and tickers are
// virtual under the controlled runtime and real otherwise; every other exported name of time is
// re-exported by the generated zz_alias.go.
package vtime

import (
	"time"

	"github.com/olareg/olareg/internal/verif/vrt"
)

func Now() time.Time { return vrt.Now() }

func Since(t time.Time) time.Duration { return vrt.Now().Sub(t) }

func Until(t time.Time) time.Duration { return t.Sub(vrt.Now()) }

// Sleep: virtual time does not pass by itself; a sleeping thread only yields.
func Sleep(d time.Duration) {
	if vrt.IsControlled() {
		vrt.Yield()
		return
	}
	time.Sleep(d)
}

type Timer struct {
	C <-chan time.Time
	r *time.Timer
	v *vrt.VTimer
}

func AfterFunc(d time.Duration, f func()) *Timer {
	if vrt.IsControlled() {
		return &Timer{v: vrt.NewVTimer(d, 0, f, "AfterFunc")}
	}
	return &Timer{r: time.AfterFunc(d, f)}
}

func NewTimer(d time.Duration) *Timer {
	if vrt.IsControlled() {
		v := vrt.NewVTimer(d, 0, nil, "NewTimer")
		return &Timer{v: v, C: v.C}
	}
	r := time.NewTimer(d)
	return &Timer{r: r, C: r.C}
}

func After(d time.Duration) <-chan time.Time { return NewTimer(d).C }

func (t *Timer) Stop() bool {
	if t.v != nil {
		return t.v.Stop()
	}
	return t.r.Stop()
}

func (t *Timer) Reset(d time.Duration) bool {
	if t.v != nil {
		return t.v.Reset(d)
	}
	return t.r.Reset(d)
}

// V exposes the virtual timer (for state dumps).
func (t *Timer) V() *vrt.VTimer { return t.v }

type Ticker struct {
	C <-chan time.Time
	r *time.Ticker
	v *vrt.VTimer
}

func NewTicker(d time.Duration) *Ticker {
	if d <= 0 {
		panic("non-positive interval for NewTicker")
	}
	if vrt.IsControlled() {
		v := vrt.NewVTimer(d, d, nil, "NewTicker")
		return &Ticker{v: v, C: v.C}
	}
	r := time.NewTicker(d)
	return &Ticker{r: r, C: r.C}
}

func Tick(d time.Duration) <-chan time.Time {
	if d <= 0 {
		return nil
	}
	return NewTicker(d).C
}

func (t *Ticker) Stop() {
	if t.v != nil {
		t.v.Stop()
		return
	}
	t.r.Stop()
}

func (t *Ticker) Reset(d time.Duration) {
	if t.v != nil {
		t.v.Reset(d)
		return
	}
	t.r.Reset(d)
}
