package checks

import (
	"fmt"
	"net/url"
	"os"
	"strings"
	"time"

	"github.com/olareg/olareg"
	"github.com/olareg/olareg/config"
	"github.com/olareg/olareg/internal/verif/h"
	"github.com/olareg/olareg/internal/verif/vos"
	"github.com/olareg/olareg/internal/verif/vrt"
)

// C14 — read-only stores and disabled APIs never change anything.

type c14Cfg struct {
	store   string // dir | memdir
	ro      bool
	push    bool
	del     bool
	blobDel bool
	layout  layoutKind
	// gcAll: untagged manifests collectable at once (Untagged on, no grace period): a store that must not collect at all
	// is then told apart from one whose policy merely keeps everything
	gcAll bool
}

func (c c14Cfg) name() string {
	b := func(v bool) string {
		if v {
			return "1"
		}
		return "0"
	}
	n := fmt.Sprintf("c14-%s-ro%s-push%s-del%s-blobdel%s-%s", c.store, b(c.ro), b(c.push), b(c.del), b(c.blobDel), c.layout.Name)
	if c.gcAll {
		n += "-gcall"
	}
	return n
}

func c14Specs(tier string) []*h.SeqSpec {
	f := StdFix()
	f.Blob("b4", "application/octet-stream", []byte("abcd"))
	lays := c14Layouts(f)
	var cfgs []c14Cfg
	// every layout with the most permissive API settings, both read-only flavours
	for i, l := range lays {
		if tier != "thorough" && i >= 7 {
			break
		}
		cfgs = append(cfgs, c14Cfg{store: "dir", ro: true, push: true, del: true, blobDel: true, layout: l}, c14Cfg{store: "memdir", push: true, del: true, blobDel: true, layout: l})
	}
	if tier == "thorough" {
		for _, l := range lays {
			cfgs = append(cfgs, c14Cfg{store: "memdir", ro: true, push: true, del: true, blobDel: true, layout: l})
		}
	}
	// read-only stores with a policy under which content would be collectable at once
	cfgs = append(cfgs, c14Cfg{store: "memdir", ro: true, push: true, del: true, blobDel: true, layout: lays[0], gcAll: true}, c14Cfg{store: "dir", ro: true, push: true, del: true, blobDel: true, layout: lays[0], gcAll: true})
	// every combination of the API switches on the converted layout (read-only directory, memory over directory, writable directory)
	for mask := 0; mask < 8; mask++ {
		push, del, bd := mask&1 != 0, mask&2 != 0, mask&4 != 0
		if push && del && bd {
			continue // covered above
		}
		cfgs = append(cfgs, c14Cfg{store: "dir", ro: true, push: push, del: del, blobDel: bd, layout: lays[0]}, c14Cfg{store: "memdir", push: push, del: del, blobDel: bd, layout: lays[0]}, c14Cfg{store: "dir", push: push, del: del, blobDel: bd, layout: lays[0]})
	}
	items := []string{"c", "l1", "l2", "e", "b4", "I1", "I2", "A1"}
	tags := []string{"t", "u"}
	subjects := []string{f.Items["I1"].Dig}
	repos := []string{"r", "r/n", "new"}
	transcript := func(w *h.World) string {
		var sb strings.Builder
		for _, r := range repos {
			sb.WriteString("== " + r + "\n" + ReadTranscript(w, f, r, items, tags, subjects))
		}
		return sb.String()
	}
	var specs []*h.SeqSpec
	for _, cf := range cfgs {
		cf := cf
		readOnlyRoot := cf.ro || cf.store == "memdir" // nothing under the root may ever change
		var ops []h.Op
		// gate: "" = the request may be served; otherwise the reason it must be refused
		gate := func(kind string) string {
			switch {
			case cf.ro:
				return "storage is read-only"
			case kind == "push" && !cf.push:
				return "push is disabled"
			case kind == "delete" && !cf.del:
				return "delete is disabled"
			case kind == "blobdelete" && (!cf.del || !cf.blobDel):
				return "blob delete is disabled"
			}
			return ""
		}
		mut := func(name, kind string, rq func(w *h.World) h.Req) {
			ops = append(ops, h.Op{Name: name, Do: func(w *h.World) []h.Violation {
				var vs []h.Violation
				why := gate(kind)
				before := ""
				if why != "" {
					transcript(w) // reads load indexes; take the comparison base from a warm instance
					before = transcript(w)
				}
				ls := vos.LogLen()
				r := w.Do(rq(w))
				vs = append(vs, c14NoMutation(w, ls, readOnlyRoot, name)...)
				if why != "" {
					if r.Status < 400 || r.Status >= 500 {
						vs = append(vs, h.V("disabled-request-refused-4xx", fmt.Sprintf("not-refused:%s:%d", kind, r.Status), "%s must be refused (%s), answered %s", name, why, r))
					}
					if after := transcript(w); after != before {
						vs = append(vs, h.V("refusal-changes-nothing", "refused-request-changed-state:"+kind, "%s was refused (%d) but the readable state changed:\n%s", name, r.Status, lineDiff(before, after)))
					}
				} else {
					w.Aux["dirty"] = "1"
				}
				return vs
			}})
		}
		for _, repo := range []string{"r", "new"} {
			repo := repo
			mut("upload blob b4 to "+repo, "push", func(w *h.World) h.Req {
				return h.Req{Method: "POST", Path: "/v2/" + repo + "/blobs/uploads/", Query: "digest=" + url.QueryEscape(f.Items["b4"].Dig), Body: f.Items["b4"].Data}
			})
			mut("open session in "+repo, "push", func(w *h.World) h.Req { return h.Req{Method: "POST", Path: "/v2/" + repo + "/blobs/uploads/"} })
		}
		mut("mount l1 from r into new", "push", func(w *h.World) h.Req {
			return h.Req{Method: "POST", Path: "/v2/new/blobs/uploads/", Query: "mount=" + url.QueryEscape(f.Items["l1"].Dig) + "&from=r"}
		})
		mut("put I2 as r:u", "push", func(w *h.World) h.Req {
			return h.Req{Method: "PUT", Path: "/v2/r/manifests/u", Body: f.Items["I2"].Data, Header: map[string]string{"Content-Type": mtImg}}
		})
		mut("put artifact A1 into r", "push", func(w *h.World) h.Req {
			return h.Req{Method: "PUT", Path: "/v2/r/manifests/" + f.Items["A1"].Dig, Body: f.Items["A1"].Data, Header: map[string]string{"Content-Type": mtImg}}
		})
		mut("delete tag r:t", "delete", func(w *h.World) h.Req { return h.Req{Method: "DELETE", Path: "/v2/r/manifests/t"} })
		mut("delete I2 by digest", "delete", func(w *h.World) h.Req { return h.Req{Method: "DELETE", Path: "/v2/r/manifests/" + f.Items["I2"].Dig} })
		mut("delete blob l2", "blobdelete", func(w *h.World) h.Req { return h.Req{Method: "DELETE", Path: "/v2/r/blobs/" + f.Items["l2"].Dig} })
		other := func(name string, do func(w *h.World)) {
			ops = append(ops, h.Op{Name: name, Do: func(w *h.World) []h.Violation {
				ls := vos.LogLen()
				do(w)
				return c14NoMutation(w, ls, readOnlyRoot, name)
			}})
		}
		other("read everything", func(w *h.World) { transcript(w) })
		other("collection tick", func(w *h.World) {
			if d := vrt.NextPeriodic(); d >= 0 {
				vrt.Advance(d, false)
				if !cf.ro {
					w.Aux["dirty"] = "1" // a writable memory store may collect its own view; the reference does not tick
				}
			}
		})
		other("advance 3h (cache expiry)", func(w *h.World) {
			vrt.Advance(3*time.Hour, false)
			if !cf.ro {
				w.Aux["dirty"] = "1"
			}
		})
		ops = append(ops, h.Op{Name: "close and reopen", Do: func(w *h.World) []h.Violation {
			ls := vos.LogLen()
			var vs []h.Violation
			if err := w.Reopen(); err != nil && readOnlyRoot {
				_ = err // a Close error is not a change; the snapshot decides
			}
			if cf.store == "memdir" {
				delete(w.Aux, "dirty") // memory content is gone, the directory is what is served again
			}
			return append(vs, c14NoMutation(w, ls, readOnlyRoot, "close and reopen")...)
		}})
		depth := 2
		if tier == "thorough" {
			depth = 3
		}
		specs = append(specs, &h.SeqSpec{
			Name: cf.name(),
			Conf: &h.Conf{Name: cf.store, Store: cf.store, Prep: func(dir string) { cf.layout.Write(dir, f) }, Mod: func(c *config.Config) {
				c.Storage.ReadOnly = bpF(cf.ro)
				c.API.PushEnabled = bpF(cf.push)
				c.API.DeleteEnabled = bpF(cf.del)
				c.API.Blob.DeleteEnabled = bpF(cf.blobDel)
				c.Storage.GC.Frequency = 15 * time.Minute
				c.Storage.GC.GracePeriod = time.Hour
				if cf.gcAll {
					c.Storage.GC.Untagged = bpF(true)
					c.Storage.GC.GracePeriod = -1
				}
			}},
			Init: func(w *h.World) {
				w.Aux["snap"] = h.SnapshotTree(w.Dir)
				// reference: a writable directory store opened on a copy of the same directory
				cp := w.Dir + "-copy"
				copyTree(w.Dir, cp)
				rc := h.BaseConfig()
				rc.Storage.StoreType = config.StoreDir
				rc.Storage.RootDir = cp
				ref := &h.World{Conf: w.Conf, S: olareg.New(rc), Slots: map[string]string{}, Aux: map[string]string{}}
				vrt.Quiesce()
				w.Aux["ref"] = transcript(ref)
				_ = ref.CloseServer()
				_ = os.RemoveAll(cp)
			},
			Ops:   ops,
			Model: func(w *h.World) string { return w.Aux["dirty"] },
			Probe: func(w *h.World) []h.Violation {
				var vs []h.Violation
				if readOnlyRoot {
					if snap := h.SnapshotTree(w.Dir); snap != w.Aux["snap"] {
						vs = append(vs, h.V("directory-unchanged", "read-only-directory-changed", "the directory under a read-only store changed:\n%s", lineDiff(w.Aux["snap"], snap)))
					}
				}
				valid := map[string]bool{"converted": true, "legacy-accurate": true, "legacy-stale": true, "nested": true}
				if w.Aux["dirty"] == "" && readOnlyRoot && valid[cf.layout.Name] {
					if got := transcript(w); got != w.Aux["ref"] {
						vs = append(vs, h.V("still-serves-content", "content-served-differs-from-writable-store:"+cf.layout.Name, "reads differ from a writable directory store opened on a copy of the directory:\n%s", lineDiff(w.Aux["ref"], got)))
					}
				}
				return vs
			},
			NonTriv:  func(w *h.World) bool { return true },
			MaxDepth: depth,
		})
	}
	return specs
}

// c14NoMutation: no mutating filesystem call under the root.
func c14NoMutation(w *h.World, logStart int, readOnlyRoot bool, what string) []h.Violation {
	if !readOnlyRoot {
		return nil
	}
	var vs []h.Violation
	for _, op := range vos.Log()[logStart:] {
		if !op.Mut {
			continue
		}
		if op.Path == w.Dir || strings.HasPrefix(op.Path, w.Dir+"/") || (op.Path2 != "" && strings.HasPrefix(op.Path2, w.Dir+"/")) {
			vs = append(vs, h.V("no-write-under-read-only-root", "fs-mutation-under-read-only-root:"+op.Kind, "%s issued %s %s", what, op.Kind, strings.TrimPrefix(op.Path, w.Dir)))
		}
	}
	return vs
}

func init() {
	h.RegisterSeq(&h.SeqCheck{
		ID:    "C14",
		Level: "model_checking",
		Rule: "for every pre-existing directory content of a family (converted layout, legacy fallback-tag layouts that can be adopted / must be regenerated, unparsable index.json, missing or foreign oci-layout, entry without blob, nested repositories, files where directories are expected, empty root) x store flavour (read-only directory, memory over directory, read-only memory over directory) and, on the converted layout, every combination of the push / delete / blob-delete switches (also on a writable directory store): " +
			"breadth-first search over all histories (bounded depth) of every mutating verb on existing and new names, full reads (which trigger index loading and referrer conversion), collection tick, cache expiry and close+reopen; after every step the filesystem-call log must contain no mutating call under the root, in every state the recursive snapshot (names, sizes, hashes, modes, mtimes) equals the initial one, refused requests are 4xx with an unchanged read transcript, and reads equal those of a writable directory store opened on a copy",
		Assume: []string{"the reference for 'still serving its content' is a writable directory store on a copy of the same directory; it is demanded for the valid layouts only (converted, legacy, nested) and only while no write was accepted and no collection ran"},
		Specs:  c14Specs,
		Budget: func(tier string) time.Duration {
			if tier == "thorough" {
				return 12 * time.Minute
			}
			return 110 * time.Second
		},
	})
}
