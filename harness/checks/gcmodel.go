package checks

import (
	"fmt"
	"sort"
	"time"

	"github.com/olareg/olareg/config"
	"github.com/olareg/olareg/internal/verif/h"
	"github.com/olareg/olareg/internal/verif/vrt"
)

// Collection model shared by C05, C06 and C10 (written from the property statements, the
// comments in config.go and the expectations of TestGarbageCollect; see DESIGN.md section 3.1).

type GCPolicy struct {
	Untagged, Dangling, WithSubj, EmptyRepo bool
	Grace                                   time.Duration // < 0: disabled
	Freq                                    time.Duration
}

func (p GCPolicy) Name() string {
	b := func(v bool) string {
		if v {
			return "T"
		}
		return "F"
	}
	g := "nograce"
	if p.Grace >= 0 {
		g = "grace" + p.Grace.String()
	}
	return fmt.Sprintf("U%sD%sS%sE%s-%s", b(p.Untagged), b(p.Dangling), b(p.WithSubj), b(p.EmptyRepo), g)
}

func (p GCPolicy) Apply(c *config.Config) {
	c.Storage.GC.Untagged = bpF(p.Untagged)
	c.Storage.GC.ReferrersDangling = bpF(p.Dangling)
	c.Storage.GC.ReferrersWithSubj = bpF(p.WithSubj)
	c.Storage.GC.EmptyRepo = bpF(p.EmptyRepo)
	c.Storage.GC.GracePeriod = p.Grace
	if p.Grace < 0 {
		c.Storage.GC.GracePeriod = -1
	}
	c.Storage.GC.Frequency = p.Freq
}

// young: pushed less than the grace period ago.
func (p GCPolicy) young(t int64) bool {
	if p.Grace < 0 {
		return false
	}
	return vrt.NowNanos()-t < int64(p.Grace)
}

// MustRetain computes what a collection running now may not remove (the safety side: only what every
// reading of the statement agrees on). The result maps item name -> reason.
func (r *MRepo) MustRetain(f *Fix, p GCPolicy) map[string]string {
	return r.mustRetain(f, p, false)
}

// mustRetain: with noOrphans, manifests that were children of a since-deleted index are treated as absent
// (to tell a loss that is only reachable through such a manifest from any other loss).
func (r *MRepo) mustRetain(f *Fix, p GCPolicy, noOrphans bool) map[string]string {
	keep := map[string]string{}
	skip := func(n string) bool { return r.Limbo[n] || (noOrphans && r.Orphan[n]) }
	var walkMan func(n, why string)
	walkBlob := func(n, why string) {
		if _, ok := keep[n]; !ok {
			keep[n] = why
		}
	}
	walked := map[string]bool{}
	walkMan = func(n, why string) {
		if noOrphans && r.Orphan[n] {
			return
		}
		if _, ok := keep[n]; !ok {
			keep[n] = why
		}
		if walked[n] {
			return
		}
		walked[n] = true
		it := f.Items[n]
		if !it.Manifest {
			return
		}
		if _, has := r.Cas[n]; !has {
			// the bytes of the manifest are gone (removed through the blob API): nothing can be reached through it
			delete(keep, n)
			return
		}
		if it.Config != "" {
			walkBlob(it.Config, "config of "+n)
		}
		for _, l := range it.Layers {
			walkBlob(l, "layer of "+n) // whatever other role the digest has, as a layer it is content
		}
		for _, c := range it.Children {
			if f.Items[c].Manifest {
				walkMan(c, "child of "+n)
			} else {
				walkBlob(c, "child of "+n)
			}
		}
		// the referrers of a retained subject, with their content
		for a := range r.Mans {
			if f.Items[a].SubjDig == it.Dig && !skip(a) {
				walkMan(a, "referrer of "+n)
			}
		}
	}
	for _, n := range h.SortedKeys(r.Tags) {
		if m := r.Tags[n]; !skip(m) {
			walkMan(m, "tagged "+n)
		}
	}
	for _, n := range h.SortedKeys(r.Mans) {
		if skip(n) {
			continue
		}
		it := f.Items[n]
		if !p.Untagged && it.SubjDig == "" {
			walkMan(n, "untagged manifest, untagged collection is off")
		}
		if p.young(r.Mans[n]) {
			walkMan(n, "manifest younger than the grace period")
		}
	}
	for _, n := range h.SortedKeys(r.Cas) {
		if r.Limbo[n] {
			continue
		}
		if p.young(r.Cas[n]) && !f.Items[n].Manifest {
			walkBlob(n, "blob younger than the grace period")
		}
	}
	// a digest kept as a layer and present as a manifest gets both treatments only if it is retained as a manifest by the rules above
	return keep
}

// Collected updates the model after a collection may have run: everything outside the must-retain set is left open.
func (r *MRepo) Collected(f *Fix, p GCPolicy) {
	keep := r.MustRetain(f, p)
	for n := range r.Cas {
		if _, ok := keep[n]; !ok {
			r.Limbo[n] = true
		}
	}
	for n := range r.Mans {
		if _, ok := keep[n]; !ok {
			r.Limbo[n] = true
		}
	}
}

// AcceptedRefs: an acknowledged manifest push proves that its direct references are present.
func (r *MRepo) AcceptedRefs(f *Fix, it *Item) {
	refs := append(append([]string{}, it.Layers...), it.Children...)
	if it.Config != "" {
		refs = append(refs, it.Config)
	}
	for _, n := range refs {
		delete(r.Limbo, n)
		if _, ok := r.Cas[n]; !ok {
			r.Cas[n] = 0 // present, age unknown: treated as old
		}
	}
}

// CheckRetained probes everything in the must-retain set.
func CheckRetained(w *h.World, f *Fix, r *MRepo, repo string, p GCPolicy) []h.Violation {
	var vs []h.Violation
	keep := r.MustRetain(f, p)
	keepNoOrphan := r.mustRetain(f, p, true)
	names := make([]string, 0, len(keep))
	for n := range keep {
		names = append(names, n)
	}
	sort.Strings(names)
	for _, n := range names {
		it := f.Items[n]
		why := keep[n]
		shape := kindOf(it) + ":" + whyClass(why)
		if _, ok := keepNoOrphan[n]; !ok {
			// retained only as, or through, a manifest that was a child of an index deleted since
			shape = "reachable-only-through-child-of-deleted-index"
		}
		_, isMan := r.Mans[n]
		if it.Manifest && isMan {
			g := w.GetManifest(repo, it.Dig)
			if g.Status != 200 || string(g.Body) != string(it.Data) {
				vs = append(vs, h.V("retained-content-survives", "retained-manifest-gone:"+shape, "%s (%s) must be retained (%s) but GET by digest answers %s", n, short(it.Dig), why, g))
			}
			continue
		}
		g := w.Head("/v2/" + repo + "/blobs/" + it.Dig)
		if g.Status != 200 {
			vs = append(vs, h.V("retained-content-survives", "retained-blob-gone:"+shape, "%s (%s) must be retained (%s) but HEAD blob answers %s", n, short(it.Dig), why, g))
		}
	}
	// every tag resolves
	for _, t := range h.SortedKeys(r.Tags) {
		n := r.Tags[t]
		if r.Limbo[n] {
			continue
		}
		g := w.GetManifest(repo, t)
		if g.Status != 200 || g.H.Get("Docker-Content-Digest") != f.Items[n].Dig {
			vs = append(vs, h.V("tagged-image-pullable", "tag-gone", "tag %s -> %s no longer resolves: %s", t, n, g))
		}
	}
	return vs
}

func whyClass(why string) string {
	for _, k := range []string{"tagged", "config of", "layer of", "child of", "referrer of", "untagged manifest", "manifest younger", "blob younger"} {
		if len(why) >= len(k) && why[:len(k)] == k {
			r := []rune(k)
			for i := range r {
				if r[i] == ' ' {
					r[i] = '-'
				}
			}
			return string(r)
		}
	}
	return "other"
}
