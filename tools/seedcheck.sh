#!/bin/bash
# tools/seedcheck.sh <Cxx> [tier] [check ...] : run the named checks (default: the property's own) against the scratch
# worktree /tmp/seed/<Cxx> that carries a seeded change. Evidence and replays go to a scratch directory.
id="$1"; tier="${2:-quick}"; shift; shift
checks="${@:-$id}"
wt=${SEEDROOT:-/tmp/seed}/$id
export VERIF_REPO=$wt VERIF_BUILD=/dev/shm/vb-seed-$id VERIF_OUT=/dev/shm/vb-seed-$id/out
for c in $checks; do
  out=$(${VERIF_HOME:-/verif}/run $c $tier 2>&1); rc=$?
  echo "== $id change vs check $c ($tier): rc=$rc  $(echo "$out" | grep -c '^VIOLATION') violations"
  echo "$out" | grep -E "^VIOLATION|sig=|history=" | cut -c1-260 | head -9
  echo "$out" | tail -1 | cut -c1-200
done
rm -rf /dev/shm/vb-seed-$id
