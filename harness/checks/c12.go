package checks

import (
	"fmt"
	"net/url"
	"strings"
	"time"

	"github.com/olareg/olareg/config"
	"github.com/olareg/olareg/internal/verif/h"
	"github.com/olareg/olareg/internal/verif/vrt"
)

// C12 — no schedule of requests and background work can hang the registry.
// The scenario bodies are shared with C13 (data races) and, for the oracle side, C11.

func reqStep(name string, rq func(w *h.World) h.Req) h.Step {
	return h.Step{Name: name, Do: func(w *h.World) string {
		r := w.DoNoQuiesce(rq(w))
		if r.Panic != "" {
			return "panic"
		}
		return fmt.Sprintf("%d %s", r.Status, r.H.Get("Docker-Content-Digest"))
	}}
}

type c12Sess struct{ path, state string }

func c12Open(w *h.World, repo string) c12Sess {
	r := w.Do(h.Req{Method: "POST", Path: "/v2/" + repo + "/blobs/uploads/"})
	p, st := parseLocation(r.H.Get("Location"))
	return c12Sess{p, st}
}

// c12Scenarios: kind "hang" scenarios for C12/C13. withClose: include the scenarios that call Close.
func c12Scenarios(tier string, withClose bool) []*h.Scenario {
	f := StdFix()
	var out []*h.Scenario
	bound := 2
	if tier == "thorough" {
		bound = 3
	}
	for _, store := range []string{"mem", "dir"} {
		store := store
		gcConf := func(max int) *h.Conf {
			return &h.Conf{Name: store, Store: store, Mod: func(c *config.Config) {
				c.Storage.GC.Frequency = 15 * time.Minute
				c.Storage.GC.GracePeriod = time.Hour
				c.Storage.GC.RepoUploadMax = max
			}}
		}
		populate := func(w *h.World, repo string) {
			for _, b := range []string{"c", "l1"} {
				mustStatus(w.PushBlob(repo, f.Items[b].Data, f.Items[b].Dig), 201)
			}
			mustStatus(w.PutManifest(repo, "t", mtImg, f.Items["I1"].Data), 201)
		}
		sess := func(w *h.World, slot string) c12Sess { return w.M.(map[string]c12Sess)[slot] }
		openPrefix := func(n int) func(w *h.World) {
			return func(w *h.World) {
				m := map[string]c12Sess{}
				w.M = m
				for i := 1; i <= n; i++ {
					m[fmt.Sprintf("s%d", i)] = c12Open(w, "r")
					vrt.Advance(time.Second, false)
				}
			}
		}
		patch := func(slot string) h.Step {
			return reqStep("PATCH "+slot, func(w *h.World) h.Req {
				s := sess(w, slot)
				return h.Req{Method: "PATCH", Path: s.path, Query: "state=" + s.state, Body: []byte("x")}
			})
		}
		put := func(slot string) h.Step {
			return reqStep("PUT "+slot, func(w *h.World) h.Req {
				s := sess(w, slot)
				return h.Req{Method: "PUT", Path: s.path, Query: "state=" + s.state + "&digest=" + url.QueryEscape(dg("sha256", []byte("z"))), Body: []byte("z")}
			})
		}
		del := func(slot string) h.Step {
			return reqStep("DELETE "+slot, func(w *h.World) h.Req { return h.Req{Method: "DELETE", Path: sess(w, slot).path} })
		}
		status := func(slot string) h.Step {
			return reqStep("GET status "+slot, func(w *h.World) h.Req { return h.Req{Method: "GET", Path: sess(w, slot).path} })
		}
		post := reqStep("POST open (overflow)", func(w *h.World) h.Req { return h.Req{Method: "POST", Path: "/v2/r/blobs/uploads/"} })
		tags := func(repo string) h.Step {
			return reqStep("GET "+repo+"/tags", func(w *h.World) h.Req { return h.Req{Method: "GET", Path: "/v2/" + repo + "/tags/list"} })
		}
		add := func(name string, sc *h.Scenario) {
			sc.Name = "c12-" + store + "-" + name
			sc.Bound = bound
			out = append(out, sc)
		}
		// uploads racing with expiry (the cache age timer is due) and eviction (pruneCount)
		add("patch-vs-expiry", &h.Scenario{Conf: gcConf(3), Prefix: openPrefix(1), Due: 67 * time.Minute, Threads: [][]h.Step{{patch("s1")}}})
		add("put-vs-expiry", &h.Scenario{Conf: gcConf(3), Prefix: openPrefix(1), Due: 67 * time.Minute, Threads: [][]h.Step{{put("s1")}}})
		add("delete-vs-expiry", &h.Scenario{Conf: gcConf(3), Prefix: openPrefix(1), Due: 67 * time.Minute, Threads: [][]h.Step{{del("s1")}}})
		add("status-vs-expiry", &h.Scenario{Conf: gcConf(3), Prefix: openPrefix(1), Due: 67 * time.Minute, Threads: [][]h.Step{{status("s1")}}})
		add("overflow-vs-patch", &h.Scenario{Conf: gcConf(2), Prefix: openPrefix(2), Threads: [][]h.Step{{post}, {patch("s1")}}})
		add("overflow-vs-put", &h.Scenario{Conf: gcConf(2), Prefix: openPrefix(2), Threads: [][]h.Step{{post}, {put("s1")}}})
		add("overflow-vs-delete", &h.Scenario{Conf: gcConf(2), Prefix: openPrefix(2), Threads: [][]h.Step{{post}, {del("s1")}}})
		// the same eviction with the grace period disabled (no age limit on the session cache)
		noGrace := func(max int) *h.Conf {
			return &h.Conf{Name: store, Store: store, Mod: func(c *config.Config) {
				c.Storage.GC.Frequency = 15 * time.Minute
				c.Storage.GC.GracePeriod = -1
				c.Storage.GC.RepoUploadMax = max
			}}
		}
		add("overflow-vs-patch-without-grace", &h.Scenario{Conf: noGrace(2), Prefix: openPrefix(2), Threads: [][]h.Step{{post}, {patch("s1")}}})
		add("overflow-vs-put-without-grace", &h.Scenario{Conf: noGrace(2), Prefix: openPrefix(2), Threads: [][]h.Step{{post}, {put("s1")}}})
		// neither an age nor a count limit on the session cache (grace period and RepoUploadMax disabled) while collection
		// runs: a pass asks the unlimited cache whether sessions are open while a request ends one
		noLimits := &h.Conf{Name: store, Store: store, Mod: func(c *config.Config) {
			c.Storage.GC.Frequency = 15 * time.Minute
			c.Storage.GC.GracePeriod = -1
			c.Storage.GC.RepoUploadMax = -1
		}}
		add("tick-vs-delete-session-without-limits", &h.Scenario{Conf: noLimits, Prefix: openPrefix(1), PendingTick: true, Threads: [][]h.Step{{del("s1")}}})
		add("tick-vs-put-session-without-limits", &h.Scenario{Conf: noLimits, Prefix: openPrefix(1), PendingTick: true, Threads: [][]h.Step{{put("s1")}}})
		add("tick-vs-open-session-without-limits", &h.Scenario{Conf: noLimits, Prefix: openPrefix(1), PendingTick: true, Threads: [][]h.Step{{post}}})
		if tier == "thorough" {
			add("overflow-vs-patch-vs-expiry", &h.Scenario{Conf: gcConf(2), Prefix: openPrefix(2), Due: 67 * time.Minute, Threads: [][]h.Step{{post}, {patch("s2")}}})
			add("two-overflows", &h.Scenario{Conf: gcConf(2), Prefix: openPrefix(2), Threads: [][]h.Step{{post}, {post}, {patch("s1")}}})
		}
		// collection tick racing with requests
		add("tick-vs-push-vs-read", &h.Scenario{Conf: gcConf(3), Prefix: func(w *h.World) { populate(w, "r") }, PendingTick: true, Threads: [][]h.Step{
			{reqStep("PUT I1 as u", func(w *h.World) h.Req {
				return h.Req{Method: "PUT", Path: "/v2/r/manifests/u", Body: f.Items["I1"].Data, Header: map[string]string{"Content-Type": mtImg}}
			})},
			{tags("r")},
		}})
		add("tick-vs-first-access", &h.Scenario{Conf: gcConf(3), Prefix: func(w *h.World) { populate(w, "r") }, PendingTick: true, Threads: [][]h.Step{
			{reqStep("POST upload to new repository", func(w *h.World) h.Req {
				return h.Req{Method: "POST", Path: "/v2/new/blobs/uploads/", Query: "digest=" + url.QueryEscape(f.Items["c"].Dig), Body: f.Items["c"].Data}
			})},
			{tags("r")},
		}})
		// a request waiting for a collection returns when its context is cancelled
		add("tick-vs-cancelled-request", &h.Scenario{Conf: gcConf(3), Prefix: func(w *h.World) {
			populate(w, "r")
			w.Aux["ctx"] = ""
			w.M = h.NewCancelCtx()
		}, PendingTick: true, Threads: [][]h.Step{
			{h.Step{Name: "GET r/tags with a context", Do: func(w *h.World) string {
				r := w.DoNoQuiesce(h.Req{Method: "GET", Path: "/v2/r/tags/list", Ctx: w.M.(*h.CancelCtx)})
				return fmt.Sprint(r.Status)
			}}},
			{h.Step{Name: "cancel the context", Do: func(w *h.World) string { w.M.(*h.CancelCtx).Cancel(); return "cancelled" }}},
		}})
		// every kind of handler racing with a pending collection tick, and with Close
		handlers := []h.Step{
			reqStep("GET blob", func(w *h.World) h.Req { return h.Req{Method: "GET", Path: "/v2/r/blobs/" + f.Items["l1"].Dig} }),
			reqStep("DELETE blob", func(w *h.World) h.Req { return h.Req{Method: "DELETE", Path: "/v2/r/blobs/" + f.Items["c"].Dig} }),
			reqStep("POST upload (monolithic)", func(w *h.World) h.Req {
				return h.Req{Method: "POST", Path: "/v2/r/blobs/uploads/", Query: "digest=" + url.QueryEscape(f.Items["l2"].Dig), Body: f.Items["l2"].Data}
			}),
			reqStep("POST mount from the same repository", func(w *h.World) h.Req {
				return h.Req{Method: "POST", Path: "/v2/r/blobs/uploads/", Query: "mount=" + url.QueryEscape(f.Items["l2"].Dig) + "&from=r"}
			}),
			reqStep("POST mount from another repository", func(w *h.World) h.Req {
				return h.Req{Method: "POST", Path: "/v2/r2/blobs/uploads/", Query: "mount=" + url.QueryEscape(f.Items["l1"].Dig) + "&from=r"}
			}),
			reqStep("POST mount from another repository that lacks the blob", func(w *h.World) h.Req {
				return h.Req{Method: "POST", Path: "/v2/r2/blobs/uploads/", Query: "mount=" + url.QueryEscape(f.Items["l2"].Dig) + "&from=r"}
			}),
			reqStep("PUT manifest with subject", func(w *h.World) h.Req {
				return h.Req{Method: "PUT", Path: "/v2/r/manifests/" + f.Items["A2"].Dig, Body: f.Items["A2"].Data, Header: map[string]string{"Content-Type": mtImg}}
			}),
			reqStep("GET manifest", func(w *h.World) h.Req {
				return h.Req{Method: "GET", Path: "/v2/r/manifests/t", Header: map[string]string{"Accept": mtImg}}
			}),
			reqStep("DELETE manifest", func(w *h.World) h.Req { return h.Req{Method: "DELETE", Path: "/v2/r/manifests/t"} }),
			reqStep("GET referrers", func(w *h.World) h.Req { return h.Req{Method: "GET", Path: "/v2/r/referrers/" + f.Items["I1"].Dig} }),
		}
		for hi, hs := range handlers {
			hs := hs
			popE := func(w *h.World) {
				populate(w, "r")
				mustStatus(w.PushBlob("r", f.Items["e"].Data, f.Items["e"].Dig), 201)
			}
			if tier == "thorough" || hi%2 == 0 || strings.Contains(hs.Name, "mount") {
				add("tick-vs-"+strings.ReplaceAll(strings.ToLower(hs.Name), " ", "-"), &h.Scenario{Conf: gcConf(3), Prefix: popE, PendingTick: true, Threads: [][]h.Step{{hs}}})
			}
			if withClose && (tier == "thorough" || hi%2 == 1 || strings.Contains(hs.Name, "mount")) {
				add("close-vs-"+strings.ReplaceAll(strings.ToLower(hs.Name), " ", "-"), &h.Scenario{Conf: gcConf(3), Prefix: popE, Threads: [][]h.Step{
					{h.Step{Name: "Close", Do: func(w *h.World) string {
						if err := w.S.Close(); err != nil {
							return "close error"
						}
						return "closed"
					}}},
					{hs},
				}})
			}
		}
		// generated (thorough): every unordered pair of handler kinds racing with each other and with a pending tick
		if tier == "thorough" {
			popE := func(w *h.World) {
				populate(w, "r")
				mustStatus(w.PushBlob("r", f.Items["e"].Data, f.Items["e"].Dig), 201)
			}
			for i := range handlers {
				for j := i; j < len(handlers); j++ {
					a, b := handlers[i], handlers[j]
					nm := strings.NewReplacer(" ", "-", "(", "", ")", "").Replace(strings.ToLower(a.Name + "-vs-" + b.Name))
					sc := &h.Scenario{Conf: gcConf(3), Prefix: popE, PendingTick: true, Threads: [][]h.Step{{a}, {b}}, MaxSeconds: 120}
					add("tick-vs-pair-"+nm, sc)
					sc.Bound = 2
				}
			}
		}
		// the rate limit bookkeeping under concurrent requests from one address
		add("ratelimit-same-address", &h.Scenario{Conf: &h.Conf{Name: store, Store: store, Mod: func(c *config.Config) { c.API.RateLimit = 2 }}, Threads: [][]h.Step{
			{reqStep("GET /v2/ from A", func(w *h.World) h.Req { return h.Req{Method: "GET", Path: "/v2/", Remote: "10.0.0.1:1"} })},
			{reqStep("GET /v2/ from A", func(w *h.World) h.Req { return h.Req{Method: "GET", Path: "/v2/", Remote: "10.0.0.1:2"} })},
			{reqStep("GET /v2/ from A (X-Forwarded-For)", func(w *h.World) h.Req {
				return h.Req{Method: "GET", Path: "/v2/", Remote: "10.9.9.9:3", Header: map[string]string{"X-Forwarded-For": "10.0.0.1"}}
			})},
		}})
		// expiry of the repository cache entry (directory store: pruneAge -> gc under the cache mutex)
		add("repo-expiry-vs-requests", &h.Scenario{Conf: gcConf(3), Prefix: func(w *h.World) { populate(w, "r"); populate(w, "other") }, Due: 67 * time.Minute, Threads: [][]h.Step{
			{tags("r")}, {tags("other")},
		}})
		if withClose {
			add("close-vs-request-vs-tick", &h.Scenario{Conf: gcConf(3), Prefix: func(w *h.World) { populate(w, "r") }, PendingTick: true, Threads: [][]h.Step{
				{h.Step{Name: "Close", Do: func(w *h.World) string {
					s := w.S
					if err := s.Close(); err != nil {
						return "close error"
					}
					return "closed"
				}}},
				{tags("r")},
			}})
			add("close-vs-upload", &h.Scenario{Conf: gcConf(3), Prefix: openPrefix(1), Threads: [][]h.Step{
				{h.Step{Name: "Close", Do: func(w *h.World) string {
					if err := w.S.Close(); err != nil {
						return "close error"
					}
					return "closed"
				}}},
				{patch("s1")},
			}})
		}
	}
	// opening a legacy layout whose fallback index must be regenerated (a self dead-lock shows as "no enabled thread")
	out = append(out, &h.Scenario{Name: "c12-dir-legacy-layout-first-access", Bound: bound,
		Conf: &h.Conf{Name: "dir", Store: "dir", Prep: func(dir string) { legacyLayout(f, "stale").Write(dir + "/r") }},
		Threads: [][]h.Step{
			{reqStep("GET r/tags", func(w *h.World) h.Req { return h.Req{Method: "GET", Path: "/v2/r/tags/list"} })},
			{reqStep("GET referrers", func(w *h.World) h.Req { return h.Req{Method: "GET", Path: "/v2/r/referrers/" + f.Items["I1"].Dig} })},
		}})
	return out
}

func init() {
	h.RegisterSched(&h.SchedCheck{
		ID:    "C12",
		Level: "model_checking",
		Rule: "stateless depth-first search over all interleavings, up to the preemption bound, of about 35 (quick) scenarios per store executed on the real server, plus in the thorough tier every unordered pair of the ten handler kinds racing with each other and with a pending tick (55 pairs per store, two preemptions, 120 s each): a request on an upload session (PATCH / PUT / DELETE / GET status) racing with the due age timer of the upload cache and with a POST that overflows RepoUploadMax (pruneCount goroutine); a push, a read and the first access of a new repository racing with a pending collection tick in the real gcTicker goroutine; a request blocked behind a collection whose context is then cancelled; every kind of handler (blob GET / DELETE, monolithic upload, mounts that hit, miss in the same and in another repository, manifest PUT / GET / DELETE, referrers) racing with a pending tick and with Close; the rate limit bookkeeping; " +
			"expiry of the repository cache entry racing with requests to that and another repository; Close racing with a request, an upload and a tick; the first accesses of a legacy layout that must be regenerated. Oracle: every thread finishes (no enabled thread while one is unfinished = dead-lock, horizon = live-lock), nothing stays blocked at quiescence; non-trivial = distinct outcomes",
		Assume:    []string{"scheduling points: lock, wait-group wait, channel receive / send / select, thread start and end; at most 3 request threads plus background threads", "happens-before prefix cache (sound under data-race freedom, see C13)"},
		Scenarios: func(tier string) []*h.Scenario { return c12Scenarios(tier, true) },
		Budget: func(tier string) time.Duration {
			if tier == "thorough" {
				return 12 * time.Minute
			}
			return 100 * time.Second
		},
	})
}
