//go:build race

package vrt

import (
	"syscall"
	"unsafe"
)

// Pipe based hand-off using raw system calls inside //go:norace functions: neither the
// pipe nor the fields below create a happens-before edge the race detector can see, so a
// controlled exploration can run under -race and the detector's vector clocks contain
// only olareg's own synchronisation.
type gate struct {
	r, w uintptr
	buf  [8]byte
}

var gatePool [256]*gate
var gatePoolN int

//go:norace
func newGate() *gate {
	if gatePoolN > 0 {
		gatePoolN--
		g := gatePool[gatePoolN]
		gatePool[gatePoolN] = nil
		return g
	}
	var fds [2]int32
	_, _, e := syscall.RawSyscall(syscall.SYS_PIPE2, uintptr(unsafe.Pointer(&fds)), 0, 0)
	if e != 0 {
		panic("vrt: pipe2 failed: " + e.Error())
	}
	return &gate{r: uintptr(fds[0]), w: uintptr(fds[1])}
}

//go:norace
func (g *gate) signal() {
	b := byte(1)
	for {
		n, _, e := syscall.Syscall(syscall.SYS_WRITE, g.w, uintptr(unsafe.Pointer(&b)), 1)
		if e == syscall.EINTR {
			continue
		}
		if e != 0 || n != 1 {
			panic("vrt: gate write failed")
		}
		return
	}
}

//go:norace
func (g *gate) wait() {
	for {
		n, _, e := syscall.Syscall(syscall.SYS_READ, g.r, uintptr(unsafe.Pointer(&g.buf[0])), 1)
		if e == syscall.EINTR {
			continue
		}
		if e != 0 || n != 1 {
			panic("vrt: gate read failed")
		}
		return
	}
}

//go:norace
func (g *gate) free() {
	if gatePoolN < len(gatePool) {
		gatePool[gatePoolN] = g
		gatePoolN++
		return
	}
	syscall.RawSyscall(syscall.SYS_CLOSE, g.r, 0, 0)
	syscall.RawSyscall(syscall.SYS_CLOSE, g.w, 0, 0)
}

// RaceBuild reports whether the binary was built with the race detector.
const RaceBuild = true
