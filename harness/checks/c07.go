package checks

import (
	"encoding/json"
	"fmt"
	"net/url"
	"strings"
	"time"

	"github.com/olareg/olareg/config"
	"github.com/olareg/olareg/internal/verif/h"
	"github.com/olareg/olareg/types"
)

// C07 — referrers responses list exactly the manifests that have the subject.

func c07Specs(tier string) []*h.SeqSpec {
	f := StdFix()
	// A6: an artifact of I1 that is only ever addressed by its sha512 digest (push and delete)
	a6 := f.Image("A6", mtImg, "e", nil, "I1", "application/x.test", map[string]string{"k": "a6"})
	a6.Dig = h.Dig("sha512", a6.Data)
	// A7: an artifact whose body omits the optional mediaType field (the type comes from Content-Type): it is listed with
	// the type it is served as
	a7b := f.Image("A7b", mtImg, "e", nil, "I1", "application/x.test", map[string]string{"k": "a7"})
	f.Raw("A7", a7b, []byte(strings.Replace(string(a7b.Data), `"mediaType":"`+mtImg+`",`, "", 1)))
	delete(f.Items, "A7b")
	const repo = "r"
	arts := []string{"A1", "A2", "A3", "A6", "A7"} // A1 and A3 share an artifactType: a filtered list can span pages; A6 is addressed by sha512
	depth := 4
	if tier == "thorough" {
		arts = []string{"A1", "A2", "A3", "A4", "A5", "AX2", "A6"}
		depth = 5
	}
	tags := []string{"t", "u"}
	// limits: one descriptor per page, two per page, default
	big := refDesc(f.Items["A6"]) // the largest descriptor of the universe (sha512 digest): every entry fits on a page of its own
	one := int64(len(h.Index(mtIdx, []h.Desc{big}, nil, "", nil))) + 8
	two := int64(len(h.Index(mtIdx, []h.Desc{big, big}, nil, "", nil))) + 8
	type lim struct {
		name string
		v    int64
	}
	// "exact": the limit is, to the byte, the size of the page that lists the largest descriptor alone (it still fits)
	limits := []lim{{"default", 0}, {"one", one}, {"exact", one - 8}}
	if tier == "thorough" {
		limits = append(limits, lim{"two", two})
	}
	subjects := []string{f.Items["I1"].Dig, f.Items["A1"].Dig, f.Items["X2"].Dig, h.Dig("sha256", []byte("never-pushed"))}
	filters := []string{"", "application/x.test", mtEmpty, "unknown/type"}
	var specs []*h.SeqSpec
	for _, store := range []string{"mem", "dir"} {
		for _, lm := range limits {
			store, lm := store, lm
			if lm.name == "exact" && store == "dir" && tier != "thorough" {
				continue // the boundary is a property of the splitting code, the same for both stores: one store in the quick tier
			}
			var ops []h.Op
			art := func(name, tag string) h.Op {
				base := opPushMan("C07", repo, f, name, tag)
				return h.Op{Name: base.Name, Do: func(w *h.World) []h.Violation {
					vs := base.Do(w)
					return vs
				}}
			}
			for _, a := range arts {
				ops = append(ops, art(a, ""))
			}
			for _, a := range arts {
				for _, t := range tags {
					if a == "A6" {
						continue // pushed by tag it would be stored under its sha256 digest: another entry, not this one
					}
					if t == "u" && a != arts[0] && tier != "thorough" {
						continue
					}
					ops = append(ops, art(a, t))
				}
			}
			for _, t := range tags {
				ops = append(ops, opDeleteTag("C07", repo, t))
			}
			for _, a := range arts {
				ops = append(ops, opDeleteMan("C07", repo, f, a))
			}
			// the subject itself comes and goes
			ops = append(ops, opDeleteMan("C07", repo, f, "I1"), opPushMan("C07", repo, f, "I1", "base"))
			if store == "dir" {
				ops = append(ops, h.Op{Name: "restart", Do: func(w *h.World) []h.Violation {
					if vs := closeViolation(w.Reopen()); vs != nil {
						return vs
					}
					// the directory store collects every repository when it is closed
					regM(w).Repo(repo).AfterCollection(f)
					return nil
				}})
			}
			// a filtered read as an operation (it fills the page cache, so that later states are reached with a warm cache)
			ops = append(ops, h.Op{Name: "read referrers(I1) filtered", Do: func(w *h.World) []h.Violation {
				w.Referrers(repo, f.Items["I1"].Dig, "application/x.test")
				return nil
			}})
			sp := &h.SeqSpec{
				Name: fmt.Sprintf("c07-%s-limit-%s", store, lm.name),
				Conf: &h.Conf{Name: store, Store: store, Mod: func(c *config.Config) {
					if lm.v > 0 {
						c.API.Referrer.Limit = lm.v
					}
				}},
				Init: func(w *h.World) {
					m := NewMReg()
					w.M = m
					r := m.Repo(repo)
					for _, b := range []string{"c", "l1", "l2", "e"} {
						mustStatus(w.PushBlob(repo, f.Items[b].Data, f.Items[b].Dig), 201)
						r.PushBlob(b)
					}
					for _, n := range []string{"I1", "I2"} {
						mustStatus(w.PutManifest(repo, f.Items[n].Dig, mtImg, f.Items[n].Data), 201)
						r.PushManifest(f.Items[n], "")
					}
					mustStatus(w.PutManifest(repo, "base", mtImg, f.Items["I1"].Data), 201)
					r.PushManifest(f.Items["I1"], "base")
					mustStatus(w.PutManifest(repo, "x", mtIdx, f.Items["X2"].Data), 201)
					r.PushManifest(f.Items["X2"], "x")
				},
				Ops:   ops,
				Model: func(w *h.World) string { return regM(w).String() },
				Probe: func(w *h.World) []h.Violation {
					m := regM(w).Repo(repo)
					var vs []h.Violation
					lv := lm.v
					for _, s := range subjects {
						for _, fl := range filters {
							for _, pass := range []string{"first-request", "repeated-request"} {
								vs = append(vs, DiffReferrersPass(w, f, m, repo, s, fl, pass)...)
							}
						}
						// page size and foreign pages
						pages := w.Referrers(repo, s, "")
						for pi, p := range pages {
							if lv > 0 && int64(len(p.Body)) > lv {
								vs = append(vs, h.V("page-within-limit", "page-over-limit", "referrers(%s) page %d has %d bytes, limit %d", short(s), pi, len(p.Body), lv))
							}
							if next := h.NextLink(p); next != "" {
								// replay the continuation link against every other subject: only that subject's referrers may come back
								nu, err := url.Parse(next)
								if err != nil {
									vs = append(vs, h.V("link-valid", "link-unparsable", "Link %q", next))
									continue
								}
								for _, o := range subjects {
									if o == s {
										continue
									}
									r := w.Do(h.Req{Method: "GET", Path: "/v2/" + repo + "/referrers/" + o, Query: nu.RawQuery})
									var idx types.Index
									if r.Status != 200 || json.Unmarshal(r.Body, &idx) != nil {
										continue
									}
									for _, d := range idx.Manifests {
										it := f.ByDigest(d.Digest.String())
										if it == nil || it.SubjDig != o {
											vs = append(vs, h.V("referrers-exact", "referrers-extra-entry:page-of-another-subject",
												"referrers(%s)?%s returned %s, which is a referrer of %s", short(o), nu.RawQuery, short(d.Digest.String()), short(s)))
										}
									}
								}
							}
						}
					}
					// unknown repository: 200 and an empty index
					r := w.Get("/v2/nosuchrepo/referrers/" + subjects[0])
					var idx types.Index
					if r.Status != 200 || json.Unmarshal(r.Body, &idx) != nil || len(idx.Manifests) != 0 {
						vs = append(vs, h.V("unknown-repo-empty", "unknown-repo-not-empty-200", "referrers of an unknown repository answered %s", r))
					}
					return vs
				},
				NonTriv: func(w *h.World) bool {
					m := regM(w).Repo(repo)
					for _, s := range subjects {
						if len(m.Referrers(f, s)) > 0 {
							return true
						}
					}
					return false
				},
				MaxDepth: depth,
			}
			// OCI-Subject on the PUT: wrap the artifact pushes
			for i := range sp.Ops {
				op := sp.Ops[i]
				for _, a := range arts {
					if len(op.Name) > 5 && op.Name[:5] == "push " && contains(op.Name, " "+a+" ") {
						a := a
						inner := op.Do
						sp.Ops[i].Do = func(w *h.World) []h.Violation {
							before := len(w.Trace)
							_ = before
							vs := inner(w)
							if w.LastResp.Status == 201 && w.LastResp.H.Get("Oci-Subject") != f.Items[a].SubjDig {
								vs = append(vs, h.V("oci-subject-header", "oci-subject-missing", "push of artifact %s answered without OCI-Subject %s: %s", a, short(f.Items[a].SubjDig), w.LastResp))
							}
							return vs
						}
					}
				}
			}
			specs = append(specs, sp)
		}
	}
	return specs
}

func contains(s, sub string) bool {
	for i := 0; i+len(sub) <= len(s); i++ {
		if s[i:i+len(sub)] == sub {
			return true
		}
	}
	return false
}

func init() {
	h.RegisterSeq(&h.SeqCheck{
		ID:    "C07",
		Level: "model_checking",
		Rule: "breadth-first search over all histories (bounded depth) of pushing artifacts by digest / by tag, overwriting tags, deleting by tag and by digest, deleting and re-pushing the subject, restart and a cache-warming filtered read, on both stores and several Referrer.Limit values; " +
			"in every distinct state the union of the Link chain of every subject x filter (each request twice) is compared with the model (present manifests whose subject is S), plus page size, OCI-Filters-Applied, continuation links replayed against other subjects; non-trivial = some subject has a referrer",
		Assume: []string{"artifact universe A1,A2,A4 (quick) / A1..A5,AX (thorough); subjects: tagged image, artifact, index, never pushed", "depth bound reported per spec"},
		Specs:  c07Specs,
		Budget: func(tier string) time.Duration {
			if tier == "thorough" {
				return 12 * time.Minute
			}
			return 110 * time.Second
		},
	})
}
