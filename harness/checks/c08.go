package checks

import (
	"encoding/base64"
	"encoding/json"
	"fmt"
	"net/url"
	"os"
	"path/filepath"
	"strconv"
	"strings"
	"time"

	"github.com/olareg/olareg/config"
	"github.com/olareg/olareg/internal/verif/h"
	"github.com/olareg/olareg/internal/verif/vrt"
)

// C08 — upload sessions are strictly sequential, isolated and leave no residue (sequential part).

// c08Status queries the upload status; returns (alive, reported bytes, state offset, response).
func c08Status(w *h.World, s *Sess) (bool, int, int, h.Resp) {
	r := w.Do(h.Req{Method: "GET", Path: s.Path})
	if r.Status != 204 {
		return false, 0, 0, r
	}
	rep := -1
	if rg := r.H.Get("Range"); strings.HasPrefix(rg, "0-") {
		if e, err := strconv.Atoi(rg[2:]); err == nil {
			rep = e + 1
		}
	}
	off := -1
	if _, st := parseLocation(r.H.Get("Location")); st != "" {
		if b, err := base64.RawURLEncoding.DecodeString(st); err == nil {
			var v struct {
				Offset int `json:"offset"`
			}
			if json.Unmarshal(b, &v) == nil {
				off = v.Offset
			}
		}
	}
	return true, rep, off, r
}

func c08Specs(tier string) []*h.SeqSpec {
	const repo = "a"
	type cfg struct {
		store string
		max   int
	}
	cfgs := []cfg{{"mem", 2}, {"dir", 2}, {"dir", 1}}
	if tier == "thorough" {
		cfgs = []cfg{{"mem", 1}, {"mem", 2}, {"mem", 3}, {"dir", 1}, {"dir", 2}, {"dir", 3}}
	}
	slots := []string{"s1", "s2", "s3"}
	var specs []*h.SeqSpec
	for _, cf := range cfgs {
		cf := cf
		minCount := int(float64(cf.max) * 0.9)
		if minCount < 1 {
			minCount = 1
		}
		var ops []h.Op
		// after any operation that may kill sessions for a legitimate reason, reconcile the model with what the server answers
		reconcile := func(w *h.World, reason string, allowed func(s *Sess) bool) []h.Violation {
			var vs []h.Violation
			m := sessM(w)
			for _, sl := range slots {
				s := m.S[sl]
				if s == nil || !s.Open {
					continue
				}
				alive, _, _, r := c08Status(w, s)
				if !alive {
					if allowed != nil && allowed(s) {
						s.Open = false
						continue
					}
					vs = append(vs, h.V("session-isolated", "session-died:"+strings.ReplaceAll(reason, " ", "-"), "session %s (open per the model, %d bytes) no longer answers after %s: %s", sl, len(s.Bytes), reason, r))
					s.Open = false
				}
			}
			return vs
		}
		openCount := func(w *h.World) int {
			n := 0
			for _, s := range sessM(w).S {
				if s.Open {
					n++
				}
			}
			return n
		}
		// eviction: a POST that takes the repository over RepoUploadMax may end sessions, down to the pruning target
		afterOpen := func(w *h.World, before int) []h.Violation {
			var vs []h.Violation
			over := before+1 > cf.max
			died := 0
			vs = append(vs, reconcile(w, "an overflowing POST", func(o *Sess) bool {
				if over && before+1-died > minCount {
					died++
					return true
				}
				return false
			})...)
			if n := openCount(w); n > cf.max {
				vs = append(vs, h.V("open-sessions-bounded", fmt.Sprintf("too-many-open-sessions:max=%d", cf.max), "%d sessions are open at quiescence, RepoUploadMax is %d", n, cf.max))
			}
			return vs
		}
		for _, sl := range slots {
			sl := sl
			ops = append(ops, h.Op{Name: "POST open " + sl, Do: func(w *h.World) []h.Violation {
				m := sessM(w)
				if m.S[sl] != nil {
					return nil // a slot is opened once per history
				}
				before := openCount(w)
				r, s := openSession(w, sl, repo, "")
				if s == nil {
					return []h.Violation{h.V("session-created", "session-open-refused", "POST uploads answered %s", r)}
				}
				return afterOpen(w, before)
			}})
		}
		// a session that a failed cross-repository mount hands out (it was created for a declared digest)
		ops = append(ops, h.Op{Name: "POST open s2 through a mount without source", Do: func(w *h.World) []h.Violation {
			m := sessM(w)
			if m.S["s2"] != nil {
				return nil
			}
			before := openCount(w)
			d := dg("sha256", []byte("mount-me"))
			r := w.Do(h.Req{Method: "POST", Path: "/v2/" + repo + "/blobs/uploads/", Query: "mount=" + url.QueryEscape(d) + "&from=nosuch"})
			if r.Status != 202 {
				return []h.Violation{h.V("session-created", "mount-fallback-refused", "mount without source should hand out a session, answered %s", r)}
			}
			p, st := parseLocation(r.H.Get("Location"))
			id := p[strings.LastIndex(p, "/")+1:]
			w.Slots["s2"] = id
			m.S["s2"] = &Sess{Slot: "s2", Repo: repo, ID: id, Path: p, State: st, Open: true, Expect: d}
			m.Order = append(m.Order, "s2")
			return afterOpen(w, before)
		}})
		// the same through a source name that the API accepts and the directory store refuses (a reserved element): the
		// fall-back session is an ordinary one; nothing else may be left behind (no hidden session, no temp file, no slot)
		ops = append(ops, h.Op{Name: "POST open s2 through a mount from a source name the store refuses (from=x/blobs)", Do: func(w *h.World) []h.Violation {
			m := sessM(w)
			if m.S["s2"] != nil {
				return nil
			}
			before := openCount(w)
			d := dg("sha256", []byte("mount-me"))
			r := w.Do(h.Req{Method: "POST", Path: "/v2/" + repo + "/blobs/uploads/", Query: "mount=" + url.QueryEscape(d) + "&from=x/blobs"})
			if r.Status != 202 {
				return nil // refusing the request is fine as well
			}
			p, st := parseLocation(r.H.Get("Location"))
			id := p[strings.LastIndex(p, "/")+1:]
			w.Slots["s2"] = id
			m.S["s2"] = &Sess{Slot: "s2", Repo: repo, ID: id, Path: p, State: st, Open: true, Expect: d}
			m.Order = append(m.Order, "s2")
			return afterOpen(w, before)
		}})
		// PATCH variants
		type pv struct {
			name  string
			chunk string
			rng   string // correct | absent | stale | future | malformed
			state string // correct | stale | future | garbage | absent
		}
		var pvs []pv
		for _, ch := range []string{"x", "yz", ""} {
			pvs = append(pvs, pv{fmt.Sprintf("%q", ch), ch, "correct", "correct"}, pv{fmt.Sprintf("%q streamed", ch), ch, "absent", "correct"})
		}
		for _, rg := range []string{"stale", "future", "malformed"} {
			pvs = append(pvs, pv{"\"x\" range " + rg, "x", rg, "correct"})
		}
		for _, st := range []string{"stale", "future", "garbage", "absent"} {
			pvs = append(pvs, pv{"\"x\" state " + st, "x", "correct", st})
		}
		for si, sl := range slots[:2] {
			for vi, v := range pvs {
				if si == 1 && (vi > 1) && tier != "thorough" {
					continue
				}
				sl, v := sl, v
				ops = append(ops, h.Op{Name: "PATCH " + sl + " " + v.name, Do: func(w *h.World) []h.Violation {
					m := sessM(w)
					s := m.S[sl]
					if s == nil {
						return nil
					}
					n := len(s.Bytes)
					hd := map[string]string{"Content-Type": "application/octet-stream"}
					wrong := false
					switch v.rng {
					case "correct":
						hd["Content-Range"] = fmt.Sprintf("%d-%d", n, n+len(v.chunk)-1)
					case "stale":
						if n == 0 {
							return nil
						}
						hd["Content-Range"] = fmt.Sprintf("%d-%d", n-1, n-1+len(v.chunk)-1)
						wrong = true
					case "future":
						hd["Content-Range"] = fmt.Sprintf("%d-%d", n+1, n+1+len(v.chunk)-1)
						wrong = true
					case "malformed":
						hd["Content-Range"] = "abc"
					}
					q := ""
					switch v.state {
					case "correct":
						q = "state=" + stateToken(n)
					case "stale":
						if n == 0 {
							return nil
						}
						q = "state=" + stateToken(n-1)
						wrong = true
					case "future":
						q = "state=" + stateToken(n+1)
						wrong = true
					case "garbage":
						q = "state=" + url.QueryEscape("!!!")
					}
					r := w.Do(h.Req{Method: "PATCH", Path: s.Path, Query: q, Body: []byte(v.chunk), Header: hd})
					var vs []h.Violation
					if !s.Open {
						if r.Status < 400 || r.Status >= 500 {
							vs = append(vs, h.V("ended-session-refused", "ended-session-answers:PATCH", "PATCH on ended session %s answered %s", sl, r))
						}
						return vs
					}
					switch {
					case r.Status == 202:
						if wrong {
							vs = append(vs, h.V("out-of-order-refused", "out-of-order-chunk-accepted:"+v.rng+"/"+v.state, "PATCH with range %s / state %s at offset %d was accepted: %s", v.rng, v.state, n, r))
						}
						s.Bytes = append(s.Bytes, v.chunk...)
					case r.Status >= 400 && r.Status < 500:
						if !wrong && v.rng != "malformed" && v.state != "garbage" && v.state != "absent" {
							vs = append(vs, h.V("in-order-accepted", "in-order-chunk-refused", "PATCH with correct offsets at %d was refused: %s", n, r))
						}
					default:
						vs = append(vs, h.V("patch-status", fmt.Sprintf("patch-status-%d", r.Status), "PATCH answered %s", r))
					}
					// the session reports exactly the bytes of the model
					alive, rep, off, sr := c08Status(w, s)
					if !alive {
						vs = append(vs, h.V("refusal-leaves-session", "session-died:PATCH", "session %s no longer answers after a PATCH (%d): %s", sl, r.Status, sr))
						s.Open = false
					} else if rep != len(s.Bytes) || off != len(s.Bytes) {
						vs = append(vs, h.V("status-reports-bytes", "status-wrong", "session %s holds %d bytes per the model, status reports Range end+1=%d, state offset=%d (%s)", sl, len(s.Bytes), rep, off, sr))
					}
					return vs
				}})
			}
		}
		// a chunk whose body takes longer than the grace period to arrive: every piece that is written keeps the session
		// (and has to keep what the session lives in) alive
		ops = append(ops, h.Op{Name: "PATCH s1 \"xyz\" streamed slowly (40 minutes pass after each byte)", Do: func(w *h.World) []h.Violation {
			m := sessM(w)
			s := m.S["s1"]
			if s == nil || !s.Open {
				return nil
			}
			n := len(s.Bytes)
			r := w.Do(h.Req{Method: "PATCH", Path: s.Path, Query: "state=" + stateToken(n), Body: []byte("xyz"), Slow: []time.Duration{40 * time.Minute, 40 * time.Minute},
				Header: map[string]string{"Content-Type": "application/octet-stream", "Content-Range": fmt.Sprintf("%d-%d", n, n+2)}})
			var vs []h.Violation
			if r.Status != 202 {
				vs = append(vs, h.V("in-order-accepted", "slow-chunk-refused", "PATCH with correct offsets at %d whose body took 80 minutes (a byte every 40, grace period 1h) was refused: %s", n, r))
			} else {
				s.Bytes = append(s.Bytes, "xyz"...)
			}
			// the other sessions were idle for 80 minutes
			vs = append(vs, reconcile(w, "80-minutes-while-s1-received-a-slow-chunk", func(o *Sess) bool { return o != s })...)
			alive, rep, off, sr := c08Status(w, s)
			if !alive {
				vs = append(vs, h.V("refusal-leaves-session", "session-died:slow-PATCH", "session s1 no longer answers after a chunk that took 80 minutes to arrive, a byte every 40 (grace period 1h): PATCH %d, status %s", r.Status, sr))
				s.Open = false
			} else if rep != len(s.Bytes) || off != len(s.Bytes) {
				vs = append(vs, h.V("status-reports-bytes", "status-wrong", "session s1 holds %d bytes per the model, status reports Range end+1=%d, state offset=%d (%s)", len(s.Bytes), rep, off, sr))
			}
			return vs
		}})
		// the session goes away while a chunk is still arriving: by expiry (80 minutes between two bytes) or by eviction (a
		// POST that overflows the limit arrives between two bytes). A chunk is acknowledged only into a session that exists:
		// 202 implies that the session answers afterwards and holds the bytes.
		for _, how := range []string{"expires (80 minutes between the bytes)", "may be evicted (an overflowing POST arrives between the bytes)"} {
			how := how
			ops = append(ops, h.Op{Name: "PATCH s1 \"xyz\" while the session " + how, Do: func(w *h.World) []h.Violation {
				m := sessM(w)
				s := m.S["s1"]
				if s == nil || !s.Open {
					return nil
				}
				n := len(s.Bytes)
				rq := h.Req{Method: "PATCH", Path: s.Path, Query: "state=" + stateToken(n), Body: []byte("xyz"),
					Header: map[string]string{"Content-Type": "application/octet-stream", "Content-Range": fmt.Sprintf("%d-%d", n, n+2)}}
				var vs []h.Violation
				if strings.HasPrefix(how, "expires") {
					rq.Slow = []time.Duration{80 * time.Minute, time.Minute}
				} else {
					rq.Slow = []time.Duration{time.Minute, time.Minute}
					rq.Mid = func(piece int) {
						if piece != 1 || m.S["s3"] != nil {
							return
						}
						openSession(w, "s3", repo, "")
					}
				}
				r := w.Do(rq)
				alive, rep, off, sr := c08Status(w, s)
				switch {
				case r.Status == 202 && !alive:
					vs = append(vs, h.V("chunk-only-into-a-live-session", "chunk-acknowledged-into-a-session-that-is-gone", "the chunk was acknowledged (%s) but the session %s: status %s", r, how, sr))
				case r.Status == 202:
					s.Bytes = append(s.Bytes, "xyz"...)
					if rep != len(s.Bytes) || off != len(s.Bytes) {
						vs = append(vs, h.V("status-reports-bytes", "status-wrong", "session s1 holds %d bytes per the model, status reports Range end+1=%d, state offset=%d (%s)", len(s.Bytes), rep, off, sr))
					}
				case strings.HasPrefix(how, "expires") && alive:
					// refused and still there: the bytes that were written before the refusal are the implementation's business; observe
					s.Bytes = s.Bytes[:0]
					for i := 0; i < rep; i++ {
						s.Bytes = append(s.Bytes, "xyz"[i%3])
					}
				}
				if strings.HasPrefix(how, "expires") && r.Status == 202 {
					vs = append(vs, h.V("ceases-to-exist-after-expiry", "chunk-acknowledged-after-expiry", "80 minutes passed between two bytes of the chunk (grace period 1h): the session had expired, the chunk was acknowledged: %s", r))
				}
				if !alive {
					s.Open = false
				}
				// the other sessions: idle for up to 81 minutes, possibly evicted by the POST
				vs = append(vs, reconcile(w, "a-chunk-during-which-time-passed-or-a-POST-arrived", func(o *Sess) bool { return o != s })...)
				return vs
			}})
		}
		// PUT variants
		for _, sl := range slots[:2] {
			for _, last := range []string{"", "z"} {
				for _, dk := range []string{"right", "wrong", "malformed", "right-sha512"} {
					sl, last, dk := sl, last, dk
					if tier != "thorough" && sl == "s2" && dk == "malformed" {
						continue
					}
					if tier != "thorough" && sl == "s1" && dk == "right-sha512" {
						continue // the plain algorithm switch is C01's; s2 is the session that was created for a declared sha256 digest
					}
					ops = append(ops, h.Op{Name: fmt.Sprintf("PUT %s last=%q digest=%s", sl, last, dk), Do: func(w *h.World) []h.Violation {
						m := sessM(w)
						s := m.S[sl]
						if s == nil {
							return nil
						}
						all := append(append([]byte{}, s.Bytes...), last...)
						d := dg("sha256", all)
						switch dk {
						case "wrong":
							d = dg("sha256", append(append([]byte{}, all...), '!'))
						case "malformed":
							d = "sha256:nothex"
						case "right-sha512":
							d = dg("sha512", all)
						}
						r := w.Do(h.Req{Method: "PUT", Path: s.Path, Query: "state=" + stateToken(len(s.Bytes)) + "&digest=" + url.QueryEscape(d), Body: []byte(last),
							Header: map[string]string{"Content-Type": "application/octet-stream"}})
						var vs []h.Violation
						if !s.Open {
							if r.Status < 400 || r.Status >= 500 {
								vs = append(vs, h.V("ended-session-refused", "ended-session-answers:PUT", "PUT on ended session %s answered %s", sl, r))
							}
							return vs
						}
						switch dk {
						case "right", "right-sha512":
							if s.Expect != "" && s.Expect != d {
								// created for another digest: completing it with other content may be refused; it must not be a 5xx and the session must end
								if r.Status >= 500 {
									vs = append(vs, h.V("completion", "completion-5xx:session-was-created-for-another-digest", "completing %s (created for %s) with content hashing to %s answered %s", sl, short(s.Expect), short(d), r))
								}
								if r.Status == 201 {
									m.AddBlob(repo, d, string(all))
								}
								s.Open = false
								return vs
							}
							if r.Status != 201 {
								vs = append(vs, h.V("completion", "completion-refused", "completing %s with the right digest answered %s", sl, r))
							} else {
								m.AddBlob(repo, d, string(all))
								g := w.Get("/v2/" + repo + "/blobs/" + d)
								if g.Status != 200 || string(g.Body) != string(all) {
									vs = append(vs, h.V("blob-is-concatenation", "completed-blob-wrong", "blob of %s should be %q, GET answered %s", sl, all, g))
								}
							}
							s.Open = false
						case "wrong":
							if r.Status < 400 || r.Status >= 500 {
								vs = append(vs, h.V("failed-verification", "wrong-digest-not-refused", "completing %s with a wrong digest answered %s", sl, r))
							}
							s.Open = false // failed verification ends the session
						case "malformed":
							if r.Status < 400 || r.Status >= 500 {
								vs = append(vs, h.V("failed-verification", "malformed-digest-not-refused", "completing %s with a malformed digest answered %s", sl, r))
							}
							// an unparsable digest is refused before anything is verified: the session may stay; observe
							if alive, _, _, _ := c08Status(w, s); !alive {
								s.Open = false
							}
						}
						return vs
					}})
				}
			}
		}
		// a finishing PUT whose state token is well formed but names another offset: "refused without altering the session"
		for _, off := range []int{-1, +1} {
			off := off
			name := map[int]string{-1: "stale", 1: "future"}[off]
			ops = append(ops, h.Op{Name: "PUT s1 last=\"\" digest=right state=" + name, Do: func(w *h.World) []h.Violation {
				s := sessM(w).S["s1"]
				if s == nil || !s.Open || len(s.Bytes)+off < 0 {
					return nil
				}
				r := w.Do(h.Req{Method: "PUT", Path: s.Path, Query: "state=" + stateToken(len(s.Bytes)+off) + "&digest=" + url.QueryEscape(dg("sha256", s.Bytes)), Body: []byte{}})
				var vs []h.Violation
				if r.Status < 400 || r.Status >= 500 {
					vs = append(vs, h.V("wrong-offset-refused", "put-with-"+name+"-state-not-refused", "PUT on s1 (%d bytes received) with the state token of offset %d answered %s", len(s.Bytes), len(s.Bytes)+off, r))
					if r.Status == 201 {
						s.Open = false
					}
					return vs
				}
				alive, n, _, g := c08Status(w, s)
				if !alive {
					vs = append(vs, h.V("refusal-leaves-session", "session-ended-by-refused-put:"+name+"-state", "the PUT with a %s state token was refused (%s), and the session is gone afterwards: status query answers %s", name, r, g))
					s.Open = false
				} else if n != len(s.Bytes) {
					vs = append(vs, h.V("refusal-leaves-session", "session-altered-by-refused-put:"+name+"-state", "the refused PUT changed the bytes the session reports from %d to %d", len(s.Bytes), n))
				}
				return vs
			}})
		}
		for _, sl := range slots[:2] {
			sl := sl
			ops = append(ops, h.Op{Name: "DELETE " + sl, Do: func(w *h.World) []h.Violation {
				s := sessM(w).S[sl]
				if s == nil {
					return nil
				}
				r := w.Do(h.Req{Method: "DELETE", Path: s.Path})
				if s.Open {
					s.Open = false
					if r.Status != 202 {
						return []h.Violation{h.V("cancel", "cancel-refused", "cancelling open session %s answered %s", sl, r)}
					}
					return nil
				}
				if r.Status < 400 || r.Status >= 500 {
					return []h.Violation{h.V("ended-session-refused", "ended-session-answers:DELETE", "DELETE on ended session %s answered %s", sl, r)}
				}
				return nil
			}})
		}
		// the session id used against another repository
		ops = append(ops, h.Op{Name: "use s1 through repository b", Do: func(w *h.World) []h.Violation {
			s := sessM(w).S["s1"]
			if s == nil {
				return nil
			}
			var vs []h.Violation
			p := "/v2/b/blobs/uploads/" + s.ID
			n := len(s.Bytes)
			for _, rq := range []h.Req{
				{Method: "GET", Path: p},
				{Method: "PATCH", Path: p, Query: "state=" + stateToken(n), Body: []byte("x")},
				{Method: "PUT", Path: p, Query: "state=" + stateToken(n) + "&digest=" + url.QueryEscape(dg("sha256", s.Bytes)), Body: []byte{}},
				{Method: "DELETE", Path: p},
			} {
				r := w.Do(rq)
				if r.Status < 400 || r.Status >= 500 {
					vs = append(vs, h.V("session-belongs-to-one-repository", "session-answers-in-other-repository:"+rq.Method, "%s %s (a session of repository a) answered %s", rq.Method, p, r))
				}
			}
			if s.Open {
				alive, rep, _, sr := c08Status(w, s)
				if !alive || rep != n {
					vs = append(vs, h.V("session-belongs-to-one-repository", "session-altered-through-other-repository", "session s1 was altered by requests addressed to repository b: %s", sr))
					s.Open = alive
				}
			}
			return vs
		}})
		// expiry
		ops = append(ops, h.Op{Name: "advance 3h (idle sessions expire)", Do: func(w *h.World) []h.Violation {
			vrt.Advance(3*time.Hour, false)
			vs := reconcile(w, "3 idle hours", func(*Sess) bool { return true })
			// three idle hours with a grace period of one: the session has expired (the cache prunes an entry at the
			// latest 1.1 x Age after its last use), it must have ceased to exist
			for _, sl := range slots {
				if s := sessM(w).S[sl]; s != nil && s.Open {
					vs = append(vs, h.V("ceases-to-exist-after-expiry", "session-survives-expiry", "session %s was idle for 3 h (grace period 1 h) and still answers", sl))
				}
			}
			return vs
		}})
		ops = append(ops, h.Op{Name: "advance 20m", Do: func(w *h.World) []h.Violation {
			vrt.Advance(20*time.Minute, false)
			return reconcile(w, "20 idle minutes (grace period 1h)", nil)
		}})
		depth := 5
		if tier == "thorough" {
			depth = 6
		}
		specs = append(specs, &h.SeqSpec{
			Name: fmt.Sprintf("c08-%s-max%d", cf.store, cf.max),
			Conf: &h.Conf{Name: cf.store, Store: cf.store, Mod: func(c *config.Config) {
				c.Storage.GC.RepoUploadMax = cf.max
				c.Storage.GC.GracePeriod = time.Hour
			}},
			Init:  func(w *h.World) { w.M = NewSessModel() },
			Ops:   ops,
			Model: func(w *h.World) string { return sessM(w).String() },
			Probe: func(w *h.World) []h.Violation {
				var vs []h.Violation
				m := sessM(w)
				open := 0
				for _, sl := range slots {
					s := m.S[sl]
					if s == nil {
						continue
					}
					if s.Open {
						open++
						alive, rep, off, sr := c08Status(w, s)
						if !alive {
							vs = append(vs, h.V("session-isolated", "session-died:unexplained", "session %s is open per the model but answers %s", sl, sr))
						} else if rep != len(s.Bytes) || off != len(s.Bytes) {
							vs = append(vs, h.V("status-reports-bytes", "status-wrong", "session %s holds %d bytes per the model, status reports %d / state %d", sl, len(s.Bytes), rep, off))
						}
					} else {
						for _, rq := range []h.Req{{Method: "GET", Path: s.Path}, {Method: "PATCH", Path: s.Path, Query: "state=" + stateToken(len(s.Bytes)), Body: []byte("x")},
							{Method: "DELETE", Path: s.Path}} {
							r := w.Do(rq)
							if r.Status < 400 || r.Status >= 500 {
								vs = append(vs, h.V("ended-session-refused", "ended-session-answers:"+rq.Method, "%s on ended session %s answered %s", rq.Method, sl, r))
								break
							}
						}
					}
					// no partial content ever becomes a blob
					for i := 0; i <= len(s.Bytes); i++ {
						d := dg("sha256", s.Bytes[:i])
						if _, ok := m.Blobs[repo][d]; ok {
							continue
						}
						if g := w.Head("/v2/" + repo + "/blobs/" + d); g.Status == 200 {
							vs = append(vs, h.V("no-partial-blob", "partial-content-became-blob", "the %d byte prefix of session %s is served as blob %s although no upload of it was acknowledged", i, sl, short(d)))
						}
					}
				}
				// no temporary file remains (directory store): exactly one per open session
				if w.Conf.Store == "dir" {
					ents, _ := os.ReadDir(filepath.Join(w.Dir, repo, "_uploads"))
					if len(ents) != open {
						var names []string
						for _, e := range ents {
							names = append(names, e.Name())
						}
						sig := "temp-files-missing"
						if len(ents) > open {
							sig = "temp-file-residue"
						}
						vs = append(vs, h.V("no-residue", sig, "%d sessions are open per the model, _uploads holds %v", open, names))
					}
				}
				return vs
			},
			NonTriv:  func(w *h.World) bool { return len(sessM(w).S) > 0 },
			MaxDepth: depth,
		})
	}
	return specs
}

func init() {
	h.RegisterSeq(&h.SeqCheck{
		ID:    "C08",
		Level: "model_checking",
		Rule: "breadth-first search over all histories (bounded depth) of POST / PATCH (chunks incl. empty; Content-Range and state token each correct, stale, future, malformed or absent) / GET status / PUT (right, wrong, malformed digest) / DELETE on up to three sessions, the session id used through another repository, virtual time advancing past the grace period (expiry through the real cache timer) and POSTs beyond RepoUploadMax (eviction through the real pruneCount goroutine), both stores; " +
			"a byte-exact session model is compared after every step and in every state; non-trivial = at least one session opened",
		Assume: []string{"expiry and eviction are observed (a session that stops answering is accepted only when the model allows expiry or eviction at that point)",
			"a malformed Content-Range, a garbage or absent state token may be refused or accepted; either way the reported bytes must agree"},
		Specs: c08Specs,
		Budget: func(tier string) time.Duration {
			if tier == "thorough" {
				return 12 * time.Minute
			}
			return 110 * time.Second
		},
	})
}
