package vrt

import (
	"crypto/sha256"
	"encoding/binary"
	"time"
)

// Virtual clock. It moves only when the driver says so.

const Epoch int64 = 1893456000 * 1e9 // 2030-01-01T00:00:00Z in Unix nanoseconds

type VTimer struct {
	id     int
	when   int64
	period int64
	f      func()
	C      chan time.Time
	active bool
	site   string
}

type clockState struct {
	now    int64
	tick   int64 // while exploring: every reading of the clock is one nanosecond later than the previous one
	timers [256]*VTimer
	n      int
	seq    int
	late   int64 // lateness added to the clock while a ticker delivery is being processed
}

var clk clockState

const clockObj = ^uintptr(0) - 7

//go:norace
func clockReset() {
	for i := 0; i < clk.n; i++ {
		clk.timers[i] = nil
	}
	clk = clockState{now: Epoch}
}

// Now returns the virtual time (real time in Off mode).
//
//go:norace
func Now() time.Time {
	if s.mode != Controlled {
		return time.Now()
	}
	if s.exploring {
		// in the concurrent phase the stamps follow the order in which the threads read the clock, as real stamps do
		// (otherwise all of them tie and e.g. the LRU order would be an artefact); the clock is then a shared object
		// for the happens-before bookkeeping
		clk.tick++
		if s.hb && s.cur != nil {
			noteEvent(s.cur, OpYield, clockObj, 0, 0)
		}
		return time.Unix(0, clk.now+clk.tick).UTC()
	}
	// UTC location on purpose: a real time.Now() carries a monotonic reading and is therefore never
	// `==` to a file's ModTime() even at the same instant; a virtual Now() in the Local location
	// would be, and olareg compares `dr.timeMod == stat.ModTime()`. Equal/Before/After/Sub are unaffected.
	return time.Unix(0, clk.now).UTC()
}

//go:norace
func NowNanos() int64 { return clk.now + clk.tick }

// NewVTimer registers a virtual timer. f != nil: AfterFunc style; otherwise a value is sent on C.
//
//go:norace
func NewVTimer(d, period time.Duration, f func(), site string) *VTimer {
	t := &VTimer{id: clk.seq, when: clk.now + int64(d), period: int64(period), f: f, active: true, site: site}
	clk.seq++
	if f == nil {
		t.C = make(chan time.Time, 1)
		External(t.C)
	}
	if clk.n >= len(clk.timers) {
		// compact
		j := 0
		for i := 0; i < clk.n; i++ {
			if clk.timers[i].active {
				clk.timers[j] = clk.timers[i]
				j++
			}
		}
		for i := j; i < clk.n; i++ {
			clk.timers[i] = nil
		}
		clk.n = j
		if clk.n >= len(clk.timers) {
			panic("vrt: too many timers")
		}
	}
	clk.timers[clk.n] = t
	clk.n++
	return t
}

//go:norace
func (t *VTimer) Stop() bool {
	was := t.active
	t.active = false
	return was
}

//go:norace
func (t *VTimer) Reset(d time.Duration) bool {
	was := t.active
	t.when = clk.now + int64(d)
	if !t.active {
		t.active = true
		// make sure it is in the table
		found := false
		for i := 0; i < clk.n; i++ {
			if clk.timers[i] == t {
				found = true
				break
			}
		}
		if !found {
			if clk.n >= len(clk.timers) {
				panic("vrt: too many timers")
			}
			clk.timers[clk.n] = t
			clk.n++
		}
	}
	return was
}

//go:norace
func nextTimer(limit int64) *VTimer {
	var best *VTimer
	for i := 0; i < clk.n; i++ {
		t := clk.timers[i]
		if !t.active || t.when > limit {
			continue
		}
		if best == nil || t.when < best.when || (t.when == best.when && t.id < best.id) {
			best = t
		}
	}
	return best
}

//go:norace
func fire(t *VTimer, hold bool) {
	at := t.when
	if t.period > 0 {
		t.when += t.period
	} else {
		t.active = false
	}
	if t.f != nil {
		spawn("timer:"+t.site, t.f, false)
	} else {
		select {
		case t.C <- time.Unix(0, at):
		default:
		}
	}
}

// Advance moves the clock forward by d, firing every timer and ticker that becomes due, in
// time order. With hold == false (main only) the system is run to quiescence after each
// firing, at the instant of the firing; with hold == true the fired timers become pending
// threads / pending channel values and nothing runs (used to prepare a concurrent phase).
//
//go:norace
func Advance(d time.Duration, hold bool) {
	if s.mode != Controlled {
		return
	}
	target := clk.now + int64(d)
	for {
		t := nextTimer(target)
		if t == nil {
			break
		}
		if t.when > clk.now {
			clk.now = t.when
		}
		fire(t, hold)
		if !hold {
			if clk.late > 0 {
				clk.now += clk.late
				if clk.now > target {
					target = clk.now
				}
			}
			Quiesce()
		}
	}
	clk.now = target
}

// SetTickLateness makes every following firing be processed d later than its nominal time
// (the Go ticker delays or drops ticks for a slow receiver; the value sent on C stays nominal).
//
//go:norace
func SetTickLateness(d time.Duration) { clk.late = int64(d) }

// NextPeriodic returns the duration until the next ticker firing, or -1 if there is no ticker.
//
//go:norace
func NextPeriodic() time.Duration {
	best := int64(-1)
	for i := 0; i < clk.n; i++ {
		t := clk.timers[i]
		if t.active && t.period > 0 && (best < 0 || t.when < best) {
			best = t.when
		}
	}
	if best < 0 {
		return -1
	}
	return time.Duration(best - clk.now)
}

// TimerInfo describes a pending timer for state fingerprints.
type TimerInfo struct {
	In     time.Duration
	Period time.Duration
	Func   bool
	Site   string
}

//go:norace
func PendingTimers() []TimerInfo {
	var out []TimerInfo
	for i := 0; i < clk.n; i++ {
		t := clk.timers[i]
		if t.active {
			out = append(out, TimerInfo{In: time.Duration(t.when - clk.now), Period: time.Duration(t.period), Func: t.f != nil, Site: t.site})
		}
	}
	return out
}

// ---- deterministic randomness ----------------------------------------------------------------

var randCtr [MaxThreads]uint32
var tempCtr [MaxThreads]uint32

// TempSeq identifies the next temporary file of the calling thread: (thread identity, per-thread counter).
// Names built from it never collide and never repeat within an execution, like the random names of the real
// os.CreateTemp, and do not depend on the interleaving.
//
//go:norace
func TempSeq() (uint64, uint32) {
	t := s.cur
	tempCtr[t.id]++
	return t.path, tempCtr[t.id]
}

//go:norace
func randReset() { randCtr = [MaxThreads]uint32{}; tempCtr = [MaxThreads]uint32{} }

// RandRead fills b with bytes that depend only on the calling thread's identity and on how
// many times that thread has asked before: independent of the interleaving.
//
//go:norace
func RandRead(b []byte) {
	t := s.cur
	randCtr[t.id]++
	var seed [16]byte
	binary.LittleEndian.PutUint64(seed[:8], t.path)
	binary.LittleEndian.PutUint32(seed[8:12], randCtr[t.id])
	off := 0
	ctr := uint32(0)
	for off < len(b) {
		binary.LittleEndian.PutUint32(seed[12:], ctr)
		h := sha256.Sum256(seed[:])
		off += copy(b[off:], h[:])
		ctr++
	}
}

// SetClock sets the virtual clock (used when a new execution continues on a directory
// written by a previous one, e.g. after an injected crash).
//
//go:norace
func SetClock(nanos int64) {
	if nanos > clk.now {
		clk.now = nanos
	}
}
