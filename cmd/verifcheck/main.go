// vcheck runs one property check: vcheck <ID> --tier quick|thorough [--replay file] | --worker
package main

import (
	"encoding/json"
	"flag"
	"fmt"
	"os"

	_ "github.com/olareg/olareg/internal/verif/checks"
	"github.com/olareg/olareg/internal/verif/h"
)

func main() {
	if len(os.Args) > 1 && os.Args[1] == "--worker" {
		h.WorkerMain()
		return
	}
	if len(os.Args) < 2 {
		fmt.Fprintln(os.Stderr, "usage: vcheck <ID> [--tier quick|thorough] [--replay file]")
		os.Exit(2)
	}
	id := os.Args[1]
	fs := flag.NewFlagSet("vcheck", flag.ExitOnError)
	tier := fs.String("tier", "quick", "quick or thorough")
	replay := fs.String("replay", "", "replay artefact")
	_ = fs.Parse(os.Args[2:])
	if t := os.Getenv("VERIF_TIER"); t != "" && *tier == "" {
		*tier = t
	}
	if *replay != "" {
		b, err := os.ReadFile(*replay)
		if err != nil {
			fmt.Fprintln(os.Stderr, err)
			os.Exit(2)
		}
		var art struct {
			Tier      string      `json:"tier"`
			Violation h.Violation `json:"violation"`
		}
		if err := json.Unmarshal(b, &art); err != nil {
			fmt.Fprintln(os.Stderr, err)
			os.Exit(2)
		}
		os.Exit(h.Replay(id, art.Tier, art.Violation))
	}
	run, ok := h.Checks[id]
	if !ok {
		fmt.Fprintf(os.Stderr, "no check registered for %s\n", id)
		os.Exit(2)
	}
	os.Exit(run(*tier))
}
