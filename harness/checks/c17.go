package checks

import (
	"encoding/json"
	"fmt"
	"os"
	"path/filepath"
	"sort"
	"strings"
	"syscall"
	"time"

	"github.com/opencontainers/go-digest"

	"github.com/olareg/olareg/internal/verif/h"
	"github.com/olareg/olareg/internal/verif/vos"
	"github.com/olareg/olareg/internal/verif/vrt"
	"github.com/olareg/olareg/types"
)

// C17 — fallback-tag referrers are converted without loss, repeatably.

type c17Fix struct {
	*Fix
	subj map[string]string // S1,S2,S3 -> digest (S3 is addressed by its sha512 digest)
}

func c17Fixture() *c17Fix {
	f := StdFix()
	// S1 = I1, S2 = I2 (sha256); S3 = image I3 addressed by sha512
	f.Blob("l3", mtLayer, []byte("layer-3"))
	f.Image("I3", mtImg, "c", []string{"l3"}, "", "", nil)
	s3 := h.Dig("sha512", f.Items["I3"].Data)
	f.Image("B1", mtImg, "e", nil, "I1", "application/x.test", map[string]string{"k": "b1"})
	f.Image("B2", mtImg, "e", nil, "I1", "", nil)
	f.Image("B3", mtImg, "e", nil, "I2", "application/x.test", nil)
	f.Image("B4", mtImg, "e", nil, s3, "application/x.test", nil)
	f.Image("Bmiss", mtImg, "e", nil, "I1", "application/x.test", map[string]string{"never": "stored"})
	// B5: both an artifactType and a typed, non-empty config: the artifactType field is what a listing shows
	f.Image("B5", mtImg, "c", []string{"l1"}, "I1", "application/x.test", map[string]string{"k": "b5"})
	f.Image("U", mtImg, "c", []string{"l2"}, "", "", map[string]string{"unrelated": "image"})
	return &c17Fix{Fix: f, subj: map[string]string{"S1": f.Items["I1"].Dig, "S2": f.Items["I2"].Dig, "S3": s3}}
}

// one fallback index: which artifacts it lists and how
type c17Entry struct {
	Art  string // artifact item
	Mode string // accurate | stale-size | stale-type | stale-ann | missing
}

type c17Layout struct {
	Name      string
	Fallback  map[string][]c17Entry // subject key (S1..S3) -> entries of the index under its fallback tag
	Converted []string              // artifacts already listed by a converted response for S1
	TagArt    bool                  // the artifacts are also tagged (they then stay in index.json as tagged entries)
}

func (cf *c17Fix) write(root string, l c17Layout) {
	f := cf.Fix
	lay := NewLayout()
	for _, n := range []string{"c", "l1", "l2", "l3", "e", "I1", "I2", "I3", "U"} {
		lay.AddItem(f.Items[n])
	}
	lay.Entry(f.Items["I1"], tagAnn("t"))
	lay.Entry(f.Items["I2"], nil)
	// I3 is listed under its sha512 digest
	i3 := f.Items["I3"]
	lay.Blobs[cf.subj["S3"]] = i3.Data
	lay.Entries = append(lay.Entries, h.Desc{MediaType: mtImg, Digest: digest.Digest(cf.subj["S3"]), Size: int64(len(i3.Data))})
	lay.Entry(f.Items["U"], tagAnn("unrelated"))
	// an ordinary tag that merely starts like a fallback tag (metadata tags of some clients look like this): an index of U
	// under "sha256-<hex of S1>.meta". It is not a fallback tag: it stays, and its children are nobody's referrers.
	ux := h.Index(mtIdx, []h.Desc{f.Items["U"].Desc()}, nil, "", nil)
	uxd := lay.AddBlob(ux)
	uxd.MediaType = mtIdx
	uxd.Annotations = tagAnn(c17SuffixTag(cf))
	lay.Entries = append(lay.Entries, uxd)
	present := map[string]bool{}
	for _, sk := range h.SortedKeys(l.Fallback) {
		ents := l.Fallback[sk]
		var ds []h.Desc
		for _, e := range ents {
			it := f.Items[e.Art]
			d := refDesc(it)
			switch e.Mode {
			case "stale-size":
				d.Size += 3
			case "stale-type":
				d.ArtifactType = "application/stale"
			case "stale-ann":
				d.Annotations = map[string]string{"stale": "annotation"}
			}
			if e.Mode != "missing" && !present[e.Art] {
				present[e.Art] = true
				lay.AddItem(it)
				if l.TagArt {
					lay.Entry(it, tagAnn("art-"+strings.ToLower(e.Art)))
				} else {
					lay.Entry(it, nil)
				}
			}
			ds = append(ds, d)
		}
		fb := h.Index(mtIdx, ds, nil, "", nil)
		fd := lay.AddBlob(fb)
		fd.MediaType = mtIdx
		fd.Annotations = tagAnn(fallbackTag(cf.subj[sk]))
		lay.Entries = append(lay.Entries, fd)
	}
	if len(l.Converted) > 0 {
		var ds []h.Desc
		for _, a := range l.Converted {
			it := f.Items[a]
			if !present[a] {
				present[a] = true
				lay.AddItem(it)
			}
			ds = append(ds, refDesc(it))
		}
		resp := h.Index(mtIdx, ds, nil, "", nil)
		rd := lay.AddBlob(resp)
		rd.MediaType = mtIdx
		rd.Annotations = map[string]string{types.AnnotReferrerSubject: cf.subj["S1"]}
		lay.Entries = append(lay.Entries, rd)
	}
	lay.Write(filepath.Join(root, "r"))
}

func c17SuffixTag(cf *c17Fix) string {
	return "sha256-" + strings.TrimPrefix(cf.subj["S1"], "sha256:") + ".meta"
}

// expected referrers per subject: the listed artifacts that exist and actually name the subject, plus accurate converted entries
func (cf *c17Fix) expect(l c17Layout) map[string][]string {
	out := map[string][]string{}
	add := func(a string) {
		it := cf.Items[a]
		for sk, d := range cf.subj {
			if it.SubjDig == d {
				for _, x := range out[sk] {
					if x == a {
						return
					}
				}
				out[sk] = append(out[sk], a)
			}
		}
	}
	for _, ents := range l.Fallback {
		for _, e := range ents {
			if e.Mode != "missing" {
				add(e.Art)
			}
		}
	}
	for _, a := range l.Converted {
		add(a)
	}
	for k := range out {
		sort.Strings(out[k])
	}
	return out
}

func c17Layouts(tier string) []c17Layout {
	var out []c17Layout
	modes := []string{"accurate", "stale-size", "stale-type", "stale-ann"}
	// S1 alone: subsets of {B1,B2} x modes, with and without a missing manifest
	for _, m1 := range modes {
		out = append(out, c17Layout{Name: "S1[B1:" + m1 + "]", Fallback: map[string][]c17Entry{"S1": {{"B1", m1}}}})
		for _, m2 := range modes {
			if tier != "thorough" && m1 != "accurate" && m2 != "accurate" && m1 != m2 {
				continue
			}
			out = append(out, c17Layout{Name: "S1[B1:" + m1 + ",B2:" + m2 + "]", Fallback: map[string][]c17Entry{"S1": {{"B1", m1}, {"B2", m2}}}})
		}
		out = append(out, c17Layout{Name: "S1[B1:" + m1 + ",Bmiss:missing]", Fallback: map[string][]c17Entry{"S1": {{"B1", m1}, {"Bmiss", "missing"}}}})
	}
	// mixed subjects under one tag, two tags, sha512 subject, coexisting converted response, tagged artifacts
	out = append(out,
		c17Layout{Name: "S1[B1,B3(names S2)]", Fallback: map[string][]c17Entry{"S1": {{"B1", "accurate"}, {"B3", "accurate"}}}},
		c17Layout{Name: "S1[B3(names S2)] only", Fallback: map[string][]c17Entry{"S1": {{"B3", "accurate"}}}},
		c17Layout{Name: "S1[B1] S2[B3]", Fallback: map[string][]c17Entry{"S1": {{"B1", "accurate"}}, "S2": {{"B3", "accurate"}}}},
		c17Layout{Name: "S1[B1:stale] S2[B3:stale]", Fallback: map[string][]c17Entry{"S1": {{"B1", "stale-size"}}, "S2": {{"B3", "stale-type"}}}},
		c17Layout{Name: "S1[B3] S2[B3] (both adoptable for S2)", Fallback: map[string][]c17Entry{"S1": {{"B3", "accurate"}}, "S2": {{"B3", "accurate"}}}},
		c17Layout{Name: "S3[B4] sha512 subject", Fallback: map[string][]c17Entry{"S3": {{"B4", "accurate"}}}},
		c17Layout{Name: "S3[B4:stale] sha512 subject", Fallback: map[string][]c17Entry{"S3": {{"B4", "stale-size"}}}},
		c17Layout{Name: "S1[B2] + converted[B1]", Fallback: map[string][]c17Entry{"S1": {{"B2", "accurate"}}}, Converted: []string{"B1"}},
		c17Layout{Name: "S1[B2:stale] + converted[B1]", Fallback: map[string][]c17Entry{"S1": {{"B2", "stale-ann"}}}, Converted: []string{"B1"}},
		c17Layout{Name: "S1[B1] tagged artifacts", Fallback: map[string][]c17Entry{"S1": {{"B1", "accurate"}}}, TagArt: true},
		c17Layout{Name: "S1[B1:stale] tagged artifacts", Fallback: map[string][]c17Entry{"S1": {{"B1", "stale-size"}}}, TagArt: true},
		c17Layout{Name: "no fallback tags", Fallback: map[string][]c17Entry{}},
		c17Layout{Name: "S1[B5] (artifactType and typed config)", Fallback: map[string][]c17Entry{"S1": {{"B5", "accurate"}}}},
		c17Layout{Name: "S1[B1,B5:stale-size]", Fallback: map[string][]c17Entry{"S1": {{"B1", "accurate"}, {"B5", "stale-size"}}}},
		c17Layout{Name: "S1[B5:stale-type]", Fallback: map[string][]c17Entry{"S1": {{"B5", "stale-type"}}}},
	)
	// generated: every assignment "absent or listed in mode m" of the artifacts B1, B2, B3 (B3 names S2) to a fallback tag
	arts := []string{"B1", "B2", "B3"}
	combos := func(ms []string) [][]c17Entry {
		var res [][]c17Entry
		var rec func(i int, cur []c17Entry)
		rec = func(i int, cur []c17Entry) {
			if i == len(arts) {
				res = append(res, append([]c17Entry{}, cur...))
				return
			}
			rec(i+1, cur)
			for _, m := range ms {
				rec(i+1, append(cur, c17Entry{arts[i], m}))
			}
		}
		rec(0, nil)
		return res
	}
	label := func(es []c17Entry) string {
		var p []string
		for _, e := range es {
			p = append(p, e.Art+":"+e.Mode)
		}
		return strings.Join(p, ",")
	}
	// one fallback tag (S1), all four modes, with and without a missing manifest, with and without a coexisting
	// converted response, artifacts tagged or not
	convs := [][]string{nil}
	tagArts := []bool{false}
	if tier == "thorough" {
		convs = [][]string{nil, {"B1"}, {"B2"}, {"B1", "B2"}}
		tagArts = []bool{false, true}
	}
	for _, es := range combos(modes) {
		for _, miss := range []bool{false, true} {
			for _, cv := range convs {
				for _, ta := range tagArts {
					if len(es) == 0 && !miss {
						continue
					}
					ents := append([]c17Entry{}, es...)
					nm := "gen S1[" + label(es)
					if miss {
						ents = append(ents, c17Entry{"Bmiss", "missing"})
						nm += ",Bmiss:missing"
					}
					nm += "]"
					if len(cv) > 0 {
						nm += " + converted[" + strings.Join(cv, ",") + "]"
					}
					if ta {
						nm += " tagged artifacts"
					}
					out = append(out, c17Layout{Name: nm, Fallback: map[string][]c17Entry{"S1": ents}, Converted: cv, TagArt: ta})
				}
			}
		}
	}
	// two fallback tags (S1 and S2), every pair of assignments; quick: modes accurate / stale-size only
	pm := []string{"accurate", "stale-size"}
	if tier == "thorough" {
		pm = modes
	}
	cs := combos(pm)
	for _, e1 := range cs {
		for _, e2 := range cs {
			if len(e1) == 0 || len(e2) == 0 {
				continue
			}
			out = append(out, c17Layout{Name: "gen S1[" + label(e1) + "] S2[" + label(e2) + "]", Fallback: map[string][]c17Entry{"S1": e1, "S2": e2}})
		}
	}
	return out
}

// c17Observe queries everything and compares with the expectation.
func c17Observe(w *h.World, cf *c17Fix, l c17Layout) ([]h.Violation, string) {
	var vs []h.Violation
	var sb strings.Builder
	exp := cf.expect(l)
	for _, sk := range []string{"S1", "S2", "S3"} {
		subj := cf.subj[sk]
		pages := w.Referrers("r", subj, "")
		var got []h.Desc
		ok := true
		for _, p := range pages {
			var idx types.Index
			if p.Status != 200 || json.Unmarshal(p.Body, &idx) != nil {
				vs = append(vs, h.V("referrers-available", fmt.Sprintf("referrers-status-%d", p.Status), "referrers(%s) answered %s", sk, p))
				ok = false
				break
			}
			got = append(got, idx.Manifests...)
		}
		if !ok {
			continue
		}
		var want []h.Desc
		for _, a := range exp[sk] {
			want = append(want, refDesc(cf.Items[a]))
		}
		if msg := cmpDescs(got, want); msg != "" {
			sig := "converted-referrers-wrong"
			if len(got) < len(want) {
				sig = "converted-referrers-lost"
			} else if len(got) > len(want) {
				sig = "converted-referrers-extra"
			}
			if sk == "S3" {
				sig += ":sha512-subject"
			}
			vs = append(vs, h.V("exactly-those-referrers", sig, "referrers(%s): %s", sk, msg))
		}
		fmt.Fprintf(&sb, "%s=%d;", sk, len(got))
	}
	// every other tag, manifest and blob is kept
	for _, t := range []string{"t", "unrelated", c17SuffixTag(cf)} {
		if g := w.GetManifest("r", t); g.Status != 200 {
			vs = append(vs, h.V("other-content-kept", "ordinary-tag-lost", "tag %s after the conversion: %s", t, g))
		}
	}
	tl, _ := w.Tags("r", "")
	for _, t := range tl {
		if strings.HasPrefix(t, "sha256-") || strings.HasPrefix(t, "sha512-") {
			// the fallback tag itself may stay or go; the statement is silent
			continue
		}
	}
	fmt.Fprintf(&sb, "tags=%v;", tl)
	items := []string{"c", "l1", "l2", "l3", "e", "I1", "I2", "U"}
	for _, ents := range l.Fallback {
		for _, e := range ents {
			if e.Mode != "missing" {
				items = append(items, e.Art)
			}
		}
	}
	items = append(items, l.Converted...)
	for _, n := range items {
		it := cf.Items[n]
		if g := w.Head("/v2/r/blobs/" + it.Dig); g.Status != 200 {
			vs = append(vs, h.V("other-content-kept", "blob-lost-in-conversion", "%s is no longer served after the conversion: %s", n, g))
		}
		if it.Manifest {
			if g := w.HeadManifest("r", it.Dig); g.Status != 200 {
				vs = append(vs, h.V("other-content-kept", "manifest-lost-in-conversion", "%s is no longer served as a manifest after the conversion: %s", n, g))
			}
		}
	}
	return vs, sb.String()
}

func c17Converted(dir string) bool {
	idx, err := readIndexFile(filepath.Join(dir, "r"))
	return err == nil && idx.Annotations[types.AnnotReferrerConvert] == "true"
}

type c17Arg struct {
	Tier   string `json:"tier"`
	Layout int    `json:"layout"`
	Store  string `json:"store"`
}

type c17Out struct {
	Viol   []h.Violation `json:"viol"`
	Execs  int           `json:"execs"`
	Crash  int           `json:"crash"`
	Fault  int           `json:"fault"`
	Sample string        `json:"sample"`
}

func c17Run(a c17Arg) (out c17Out) {
	cf := c17Fixture()
	lays := c17Layouts(a.Tier)
	l := lays[a.Layout]
	conf := &h.Conf{Name: a.Store, Store: a.Store, Prep: func(dir string) { cf.write(dir, l) }}
	tagv := func(vs []h.Violation, extra string) {
		for _, v := range vs {
			v.Conf = a.Store
			v.History = []string{"layout " + l.Name, extra}
			out.Viol = append(out.Viol, v)
		}
	}
	// 1. uninterrupted conversion, repeat, reopen
	var ref string
	func() {
		var w *h.World
		defer func() {
			if p := recover(); p != nil {
				if !vrt.IsAbort(p) {
					panic(p)
				}
				sig, detail := h.AbortSignature()
				tagv([]h.Violation{h.V("conversion-terminates", "hang:"+sig, "opening the layout never returns: %s", detail)}, "first access")
			}
			if w != nil {
				w.Destroy()
			}
		}()
		w = h.NewWorld(conf, vrt.Config{})
		out.Execs++
		vs, obs := c17Observe(w, cf, l)
		tagv(vs, "first access")
		ref = obs
		if a.Store == "dir" && !c17Converted(w.Dir) {
			tagv([]h.Violation{h.V("marked-converted", "layout-not-marked-converted", "index.json does not carry the conversion marker after the conversion")}, "first access")
		}
		// same instance again, then a new instance on the same directory
		vs2, obs2 := c17Observe(w, cf, l)
		if len(vs) == 0 && (len(vs2) > 0 || obs2 != obs) {
			tagv(append(vs2, h.V("repeatable", "second-query-differs", "a second round of queries differs: %s vs %s", obs, obs2)), "second round")
		}
		_ = w.Reopen()
		out.Execs++
		vs3, obs3 := c17Observe(w, cf, l)
		if len(vs) == 0 && (len(vs3) > 0 || obs3 != obs) {
			tagv(append(vs3, h.V("repeatable", "differs-after-reopen", "after reopening the directory the result differs: %s vs %s", obs, obs3)), "after reopen")
		}
		out.Sample = l.Name + " -> " + obs
	}()
	if a.Store != "dir" || ref == "" {
		return out
	}
	// 2. every crash point of the conversion: reopening gives the uninterrupted result
	var nmut int
	func() {
		w := h.NewWorld(conf, vrt.Config{})
		defer w.Destroy()
		base := vos.MutCount()
		defer func() { _ = recover() }()
		c17Observe(w, cf, l)
		nmut = vos.MutCount() - base
	}()
	for k := 1; k <= nmut; k++ {
		func() {
			w := h.NewWorld(conf, vrt.Config{})
			defer w.Destroy()
			vos.CrashAt(vos.MutCount()+k, -1)
			crashed := false
			func() {
				defer func() {
					if p := recover(); p != nil {
						if !vrt.IsAbort(p) {
							panic(p)
						}
						crashed = true
					}
				}()
				c17Observe(w, cf, l)
			}()
			if !crashed || !vos.Crashed() {
				return
			}
			func() {
				defer func() { _ = recover() }()
				vrt.Abort(vrt.AbortCrash)
			}()
			vos.CloseAllOpen()
			now := vrt.NowNanos()
			vrt.Reset(vrt.Config{})
			vos.Reset(true)
			vrt.SetClock(now + int64(time.Second))
			out.Crash++
			func() {
				defer func() {
					if p := recover(); p != nil {
						if !vrt.IsAbort(p) {
							panic(p)
						}
						sig, detail := h.AbortSignature()
						tagv([]h.Violation{h.V("conversion-terminates", "hang-after-interrupted-conversion:"+sig, "repeating the conversion after a crash never returns: %s", detail)}, fmt.Sprintf("crash before mutating call %d, reopen", k))
					}
				}()
				w.ReopenNoClose()
				vs, obs := c17Observe(w, cf, l)
				if len(vs) > 0 || obs != ref {
					for i := range vs {
						vs[i].Sig = "after-interrupted-conversion:" + vs[i].Sig
					}
					if len(vs) == 0 {
						vs = append(vs, h.V("repeatable-after-interruption", "after-interrupted-conversion:result-differs", "result %s differs from the uninterrupted %s", obs, ref))
					}
					tagv(vs, fmt.Sprintf("crash before mutating call %d, reopen", k))
				}
			}()
		}()
	}
	// 3. every mutating call of the conversion fails with an I/O error instead (the process lives on): whatever the
	// interrupted first access answered, an ordinary tag push and tag delete in the same process followed by a restart
	// must give the uninterrupted result - "interrupting it at any point and repeating it gives the same result"
	for k := 1; k <= nmut; k++ {
		func() {
			w := h.NewWorld(conf, vrt.Config{})
			defer w.Destroy()
			what := fmt.Sprintf("I/O error at mutating call %d, tag push and delete, restart", k)
			defer func() {
				if p := recover(); p != nil {
					if !vrt.IsAbort(p) {
						panic(p)
					}
					sig, detail := h.AbortSignature()
					tagv([]h.Violation{h.V("conversion-terminates", "hang-after-failed-conversion:"+sig, "after an I/O error inside the conversion a request never returns: %s", detail)}, what)
				}
			}()
			vos.FailAt(vos.MutCount()+k, syscall.EIO)
			c17Observe(w, cf, l) // answers during and right after the fault are not judged
			w.AutoViol = nil
			out.Fault++
			{
				// repeated in the same process (3 s later, past the index re-check interval): known finding, see DESIGN 8.2
				vrt.Advance(3*time.Second, false)
				vsP, obsP := c17Observe(w, cf, l)
				if len(vsP) > 0 || obsP != ref {
					for i := range vsP {
						vsP[i].Sig = "repeated-in-the-same-process-after-failed-conversion:" + vsP[i].Sig
					}
					if len(vsP) == 0 {
						vsP = append(vsP, h.V("repeatable-after-interruption", "repeated-in-the-same-process-after-failed-conversion:result-differs", "result %s differs from the uninterrupted %s", obsP, ref))
					}
					tagv(vsP, fmt.Sprintf("I/O error at mutating call %d, queries repeated 3 s later in the same process", k))
				}
				w.AutoViol = nil
			}
			u := cf.Items["U"]
			w.PutManifest("r", "afterfault", u.MT, u.Data)
			w.Delete("/v2/r/manifests/afterfault")
			w.AutoViol = nil
			_ = w.Reopen()
			vs, obs := c17Observe(w, cf, l)
			if len(vs) > 0 || obs != ref {
				for i := range vs {
					vs[i].Sig = "after-failed-conversion:" + vs[i].Sig
				}
				if len(vs) == 0 {
					vs = append(vs, h.V("repeatable-after-interruption", "after-failed-conversion:result-differs", "result %s differs from the uninterrupted %s", obs, ref))
				}
				tagv(vs, what)
			}
		}()
	}
	return out
}

func init() {
	h.RegisterJob("c17", func(arg json.RawMessage) (any, error) {
		var a c17Arg
		if err := json.Unmarshal(arg, &a); err != nil {
			return nil, err
		}
		return c17Run(a), nil
	})
	h.Checks["C17"] = func(tier string) int {
		rep := h.NewReport("C17", tier, "fault_enumeration")
		rep.Rule = "every layout of a generated family (fallback indexes for sha256 and sha512 subjects listing subsets of artifacts with accurate / stale-size / stale-type / stale-annotation descriptors, missing manifests, artifacts of another subject, two tags adoptable for one subject, a coexisting converted response, tagged and untagged artifacts; plus, generated exhaustively: every assignment 'absent or listed in mode m' of three artifacts (one of them naming the other subject) to one fallback tag x missing manifest [x coexisting converted response x tagged artifacts in the thorough tier], and every pair of such assignments to two fallback tags (two modes quick, four modes thorough)) is written to disk by the harness and opened with a writable directory store and with a memory store over the directory; " +
			"referrers(S) must be exactly the listed artifacts that exist and name S, all other tags / manifests / blobs stay served, index.json is marked converted, a second round and a reopen give the same result, the first access terminates (no enabled thread = dead-lock), and for every mutating filesystem call of the conversion a crash before it followed by a reopen gives the uninterrupted result, and so does an I/O error returned by it followed by a tag push and delete in the same process and a restart (the queries repeated in the same process before that restart are a known finding); non-trivial = crash images + conversions executed"
		rep.Assume = []string{"whether the fallback tag itself stays listed is left open", "process-crash model"}
		lays := c17Layouts(tier)
		var jobs []h.Job
		var meta []c17Arg
		for li := range lays {
			for _, st := range []string{"dir", "memdir"} {
				a := c17Arg{Tier: tier, Layout: li, Store: st}
				jobs = append(jobs, h.MkJob("c17", a))
				meta = append(meta, a)
			}
		}
		pool := h.NewPool(16)
		defer pool.Close()
		res := pool.Run(jobs, nil)
		for i, jr := range res {
			if jr.Died {
				v := h.V("conversion-terminates", "process-death", "the worker died on layout %s (%s): %s\n%s", lays[meta[i].Layout].Name, meta[i].Store, jr.Error, jr.Log)
				v.Conf = meta[i].Store
				v.History = []string{"layout " + lays[meta[i].Layout].Name}
				rep.AddViolation(v)
				continue
			}
			if jr.Error != "" {
				rep.Infra("worker: %s\n%s", jr.Error, jr.Log)
				continue
			}
			var o c17Out
			if err := json.Unmarshal(jr.Out, &o); err != nil {
				rep.Infra("decode: %v", err)
				continue
			}
			for _, v := range o.Viol {
				rep.AddViolation(v)
			}
			rep.Evals += o.Execs + o.Crash + o.Fault
			rep.Traces += o.Execs + o.Crash + o.Fault
			rep.NonTrivial += o.Execs + o.Crash + o.Fault
			rep.States += o.Execs
			rep.Trans += o.Crash + o.Fault
			if len(rep.Samples) < 6 && o.Sample != "" {
				rep.Samples = append(rep.Samples, meta[i].Store+": "+o.Sample)
			}
		}
		rep.Bounds["layouts"] = len(lays)
		rep.Parts = append(rep.Parts, map[string]any{"layouts": len(lays), "stores": 2})
		return rep.Emit()
	}
	h.Replayers["C17"] = func(tier string, v h.Violation) int {
		lays := c17Layouts(tier)
		for li, l := range lays {
			if len(v.History) > 0 && v.History[0] == "layout "+l.Name {
				o := c17Run(c17Arg{Tier: tier, Layout: li, Store: v.Conf})
				for _, x := range o.Viol {
					fmt.Printf("VIOLATION property=C17 rule=%s sig=%s history=%v\n  %s\n", x.Rule, x.Sig, x.History, x.Detail)
				}
				if len(o.Viol) > 0 {
					return 1
				}
				return 0
			}
		}
		return 2
	}
}

var _ = os.Stat
