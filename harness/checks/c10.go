package checks

import (
	"fmt"
	"os"
	"path/filepath"
	"sort"
	"strings"
	"time"

	"github.com/olareg/olareg"
	"github.com/olareg/olareg/config"
	"github.com/olareg/olareg/internal/verif/h"
	"github.com/olareg/olareg/internal/verif/vrt"
	"github.com/olareg/olareg/types"
)

// C10 — the directory is always a valid OCI layout equal to the API state; restart and store equivalence.

func c10Fix() *Fix {
	f := StdFix()
	// the same image addressed under sha512 (manifest pushed by its sha512 digest)
	i := f.Items["I1"]
	it := &Item{Name: "I1s512", Manifest: true, MT: i.MT, Data: i.Data, Dig: h.Dig("sha512", i.Data), Config: i.Config, Layers: i.Layers}
	f.Items["I1s512"] = it
	b := &Item{Name: "l3s384", MT: mtLayer, Data: []byte("layer-3"), Dig: h.Dig("sha384", []byte("layer-3"))}
	f.Items["l3s384"] = b
	// a two-level index over an image of its own (no delete operation of the universe addresses these by digest: the
	// answer for a child deleted while its index stays is left open, DESIGN 8.3 item 14)
	f.Image("I3", mtImg, "c", []string{"l1"}, "", "", map[string]string{"n": "3"})
	f.Index("X3", mtIdx, []string{"I3"}, "", "", nil)
	f.Index("Y3", mtIdx, []string{"X3"}, "", "", nil)
	// an image body without the mediaType field, and an index that lists it under the docker manifest type: which type
	// a pull by digest answers with must not depend on whether index.json has been reloaded since
	i4 := f.Image("I4", mtImg, "c", []string{"l1"}, "", "", map[string]string{"n": "4"})
	noMT := []byte(strings.Replace(string(i4.Data), `"mediaType":"`+mtImg+`",`, "", 1))
	n4 := f.Raw("I4nomt", i4, noMT)
	d4 := n4.Desc()
	d4.MediaType = types.MediaTypeDocker2Manifest
	xd := f.Raw("Xd", f.Items["X3"], h.Index(mtIdx, []h.Desc{d4}, nil, "", nil))
	xd.Children = []string{"I4nomt"}
	// a docker manifest list over an untagged docker image
	f.Blob("dc", types.MediaTypeDocker2ImageConfig, []byte(`{"docker":true}`))
	f.Image("D1", types.MediaTypeDocker2Manifest, "dc", []string{"l1"}, "", "", nil)
	f.Index("DL", types.MediaTypeDocker2ManifestList, []string{"D1"}, "", "", nil)
	return f
}

var c10Repos = []string{"r", "r/n", "s"}

// c10ValidateLayout checks one repository directory against the layout rules and the API.
func c10ValidateLayout(w *h.World, f *Fix, repo string, items, tags []string) []h.Violation {
	var vs []h.Violation
	add := func(rule, sig, format string, a ...any) {
		vs = append(vs, h.V(rule, sig, "repository "+repo+": "+format, a...))
	}
	dir := filepath.Join(w.Dir, repo)
	if _, err := os.Stat(dir); err != nil {
		return nil
	}
	// does it hold content?
	holds := false
	_ = filepath.Walk(filepath.Join(dir, "blobs"), func(p string, fi os.FileInfo, err error) error {
		if err == nil && !fi.IsDir() {
			holds = true
		}
		return nil
	})
	idx, ierr := readIndexFile(dir)
	if ierr == nil && len(idx.Manifests) > 0 {
		holds = true
	}
	if !holds {
		return nil
	}
	lb, err := os.ReadFile(filepath.Join(dir, "oci-layout"))
	if err != nil || !strings.Contains(string(lb), `"imageLayoutVersion":"1.0.0"`) {
		add("oci-layout-present", "oci-layout-missing-or-wrong", "holds content but oci-layout is %q (%v)", lb, err)
	}
	if ierr != nil {
		add("index-parses", "index-unparsable", "holds content but index.json does not load: %v", ierr)
		return vs
	}
	seenTag := map[string]bool{}
	var fileTags []string
	for _, d := range idx.Manifests {
		if t := d.Annotations[types.AnnotRefName]; t != "" {
			if seenTag[t] {
				add("tags-unique", "duplicate-tag-in-index", "tag %s appears twice in index.json", t)
			}
			seenTag[t] = true
			fileTags = append(fileTags, t)
		}
		alg, hx, _ := strings.Cut(d.Digest.String(), ":")
		b, err := os.ReadFile(filepath.Join(dir, "blobs", alg, hx))
		if err != nil {
			add("entry-has-blob", "index-entry-without-blob", "index.json lists %s, no blob file: %v", short(d.Digest.String()), err)
			continue
		}
		if int64(len(b)) != d.Size {
			add("entry-size", "index-entry-size-wrong", "index.json records %d bytes for %s, the blob has %d", d.Size, short(d.Digest.String()), len(b))
		}
		if !digestMatches(d.Digest.String(), b) {
			add("entry-digest", "index-entry-digest-wrong", "blob of %s does not hash to it", short(d.Digest.String()))
		}
	}
	// blobs only as blobs/<alg>/<hex>
	_ = filepath.Walk(filepath.Join(dir, "blobs"), func(p string, fi os.FileInfo, err error) error {
		if err != nil || fi.IsDir() {
			return nil
		}
		rel, _ := filepath.Rel(filepath.Join(dir, "blobs"), p)
		parts := strings.Split(rel, "/")
		if len(parts) != 2 {
			add("blob-paths", "stray-file-under-blobs", "unexpected file blobs/%s", rel)
			return nil
		}
		b, _ := os.ReadFile(p)
		if !digestMatches(parts[0]+":"+parts[1], b) {
			add("blob-paths", "blob-file-name-is-not-its-digest", "blobs/%s does not hash to its name", rel)
		}
		return nil
	})
	// tags in the file = tags the API reports
	sort.Strings(fileTags)
	apiTags, _ := w.Tags(repo, "")
	if apiTags == nil {
		apiTags = []string{}
	}
	if !eqStrings(fileTags, apiTags) {
		add("file-equals-api", "tags-differ-from-index-file", "index.json has tags %v, the API lists %v", fileTags, apiTags)
	}
	// manifests: served by the API <=> listed in the file at top level or reachable as a child of a listed index
	reach := map[string]bool{}
	var walk func(d string)
	walk = func(d string) {
		if reach[d] {
			return
		}
		reach[d] = true
		if it := f.ByDigest(d); it != nil {
			for _, c := range it.Children {
				walk(f.Items[c].Dig)
			}
		}
		// referrers responses are indexes written by the registry itself: follow them through the blob
		alg, hx, _ := strings.Cut(d, ":")
		if b, err := os.ReadFile(filepath.Join(dir, "blobs", alg, hx)); err == nil && f.ByDigest(d) == nil {
			var ri types.Index
			if jsonUnmarshal(b, &ri) == nil {
				for _, c := range ri.Manifests {
					walk(c.Digest.String())
				}
			}
		}
	}
	for _, d := range idx.Manifests {
		walk(d.Digest.String())
	}
	for _, n := range items {
		it := f.Items[n]
		if !it.Manifest {
			continue
		}
		served := w.HeadManifest(repo, it.Dig).Status == 200
		if served != reach[it.Dig] {
			add("file-equals-api", fmt.Sprintf("manifest-served=%v-but-in-index-file=%v", served, reach[it.Dig]), "%s: the API serves it = %v, index.json reaches it = %v", n, served, reach[it.Dig])
		}
	}
	return vs
}

func c10Specs(tier string) []*h.SeqSpec {
	f := c10Fix()
	items := []string{"c", "l1", "l2", "e", "l3s384", "I1", "I1s512", "I2", "X2", "I3", "X3", "Y3", "I4nomt", "Xd", "D1", "DL", "A1"}
	tags := []string{"t", "u"}
	subjects := []string{f.Items["I1"].Dig}
	type cfg struct {
		grace time.Duration
		empty bool
		step  time.Duration
	}
	cfgs := []cfg{{time.Hour, true, 0}, {-1, true, 2 * time.Second}}
	if tier == "thorough" {
		cfgs = []cfg{{time.Hour, true, 0}, {time.Hour, false, 2 * time.Second}, {-1, true, 0}, {-1, true, 2 * time.Second}, {-1, false, 0}, {time.Hour, true, 2 * time.Second}}
	}
	transcript := func(w *h.World) string {
		var sb strings.Builder
		for _, r := range c10Repos {
			sb.WriteString("== " + r + "\n" + ReadTranscript(w, f, r, items, tags, subjects))
		}
		return sb.String()
	}
	var specs []*h.SeqSpec
	for _, cf := range cfgs {
		cf := cf
		pol := GCPolicy{Untagged: false, Dangling: false, WithSubj: true, EmptyRepo: cf.empty, Grace: cf.grace, Freq: 15 * time.Minute}
		var ops []h.Op
		blob := func(repo, n string) {
			ops = append(ops, h.Op{Name: "push blob " + n + " to " + repo, Do: func(w *h.World) []h.Violation {
				w.PushBlob(repo, f.Items[n].Data, f.Items[n].Dig)
				return nil
			}})
		}
		man := func(repo, n, tag string) {
			nm := "push " + n + " by digest to " + repo
			if tag != "" {
				nm = "push " + n + " as " + repo + ":" + tag
			}
			ops = append(ops, h.Op{Name: nm, Do: func(w *h.World) []h.Violation {
				it := f.Items[n]
				ref := it.Dig
				if tag != "" {
					ref = tag
				}
				w.PutManifest(repo, ref, it.MT, it.Data)
				return nil
			}})
		}
		for _, b := range []string{"c", "l1", "l2", "e", "l3s384"} {
			blob("r", b)
		}
		man("r", "I1", "t")
		man("r", "I1", "u")
		man("r", "I1s512", "")
		man("r", "I2", "")
		man("r", "X2", "t")
		man("r", "A1", "")
		// a two-level index pushed completely (children and grandchildren by digest): what the inner index lists is only
		// known through two levels of index.json bookkeeping, which a reload has to rebuild
		ops = append(ops, h.Op{Name: "push nested index Y3 completely to r (I3, X3 by digest, Y3 as u)", Do: func(w *h.World) []h.Violation {
			for _, b := range []string{"c", "l1"} {
				w.PushBlob("r", f.Items[b].Data, f.Items[b].Dig)
			}
			for _, n := range []string{"I3", "X3"} {
				w.PutManifest("r", f.Items[n].Dig, f.Items[n].MT, f.Items[n].Data)
			}
			w.PutManifest("r", "u", f.Items["Y3"].MT, f.Items["Y3"].Data)
			return nil
		}})
		ops = append(ops, h.Op{Name: "push I4 (body without mediaType) by digest as OCI image, then an index listing it as docker type, as u", Do: func(w *h.World) []h.Violation {
			for _, b := range []string{"c", "l1"} {
				w.PushBlob("r", f.Items[b].Data, f.Items[b].Dig)
			}
			w.PutManifest("r", f.Items["I4nomt"].Dig, mtImg, f.Items["I4nomt"].Data)
			w.PutManifest("r", "u", mtIdx, f.Items["Xd"].Data)
			return nil
		}})
		ops = append(ops, h.Op{Name: "push docker image D1 by digest and the docker list DL over it by digest", Do: func(w *h.World) []h.Violation {
			for _, b := range []string{"dc", "l1"} {
				w.PushBlob("r", f.Items[b].Data, f.Items[b].Dig)
			}
			w.PutManifest("r", f.Items["D1"].Dig, f.Items["D1"].MT, f.Items["D1"].Data)
			w.PutManifest("r", f.Items["DL"].Dig, f.Items["DL"].MT, f.Items["DL"].Data)
			return nil
		}})
		blob("r/n", "c")
		blob("r/n", "l1")
		man("r/n", "I1", "t")
		blob("s", "c")
		// a legal nested name whose directory is where r keeps the blob l2; the directory store has to refuse it (a name
		// the stores do not both accept: its own content is not compared, that of r is)
		blob("r/blobs/sha256/"+strings.TrimPrefix(f.Items["l2"].Dig, "sha256:"), "c")
		for _, p := range []string{"/v2/r/manifests/t", "/v2/r/manifests/" + f.Items["I1"].Dig, "/v2/r/manifests/" + f.Items["X2"].Dig, "/v2/r/blobs/" + f.Items["l2"].Dig, "/v2/r/n/manifests/t", "/v2/r/manifests/" + f.Items["A1"].Dig, "/v2/r/manifests/" + f.Items["DL"].Dig} {
			p := p
			ops = append(ops, h.Op{Name: "DELETE " + strings.Replace(p, "sha256:", "", 1)[:minInt(len(p), 40)], Do: func(w *h.World) []h.Violation { w.Delete(p); return nil }})
		}
		ops = append(ops, h.Op{Name: "collection tick", Do: func(w *h.World) []h.Violation { gcTick(w); return nil }})
		if cf.grace > 0 {
			ops = append(ops, h.Op{Name: "advance 1.2 x grace", Do: func(w *h.World) []h.Violation {
				vrt.Advance(cf.grace+cf.grace/5+29*time.Second, false)
				return nil
			}})
		}
		ops = append(ops, h.Op{Name: "collection tick, then restart", Do: func(w *h.World) []h.Violation { gcTick(w); _ = w.Reopen(); return nil }})
		depth := 4
		if tier == "thorough" {
			depth = 5
		}
		specs = append(specs, &h.SeqSpec{
			Name: fmt.Sprintf("c10-dir-%s-step%s", pol.Name(), cf.step),
			Conf: &h.Conf{Name: "dir", Store: "dir", Shadow: "mem", Step: cf.step, Mod: func(c *config.Config) { pol.Apply(c) }},
			Init: func(w *h.World) { vrt.Advance(67*time.Second, false) },
			Ops:  ops,
			Probe: func(w *h.World) []h.Violation {
				var vs []h.Violation
				// the probe's own requests take no virtual time: otherwise content ages past the grace period between the
				// collection pass below and the Close of the restart comparison, and Close rightly collects it
				if w.Conf.Step > 0 {
					step := w.Conf.Step
					w.Conf.Step = 0
					defer func() { w.Conf.Step = step }()
				}
				for _, r := range c10Repos {
					vs = append(vs, c10ValidateLayout(w, f, r, items, tags)...)
				}
				// a collection pass on both stores first: what Close collects on the directory store (it collects every
				// repository it drops from its cache) is then already gone on both sides
				gcTick(w)
				for _, r := range c10Repos {
					vs = append(vs, c10ValidateLayout(w, f, r, items, tags)...)
				}
				tDir := transcript(w)
				// (b) the same requests against the memory store
				if w.Sh != nil {
					sw := &h.World{Conf: &h.Conf{}, S: w.Sh, Slots: map[string]string{}, Aux: map[string]string{}}
					if tMem := transcript(sw); tMem != tDir {
						sig := "directory-and-memory-store-differ"
						if histHas(w, "restart") && onlyLoss(tDir, tMem) {
							// the directory store does not know the repositories of its root until they are requested: after a
							// restart the scheduled passes do not visit them
							sig = "directory-store-keeps-collectable-content-after-restart"
						}
						vs = append(vs, h.V("store-equivalence", sig, "the same requests give different read answers on the memory store:\n%s", lineDiffLabeled("dir", "mem", tDir, tMem)))
					}
				}
				// (c) a memory store layered over the directory
				mc := w.Cfg
				mc.Storage.StoreType = config.StoreMem
				mc.Storage.GC.Frequency = -1
				mw := &h.World{Conf: &h.Conf{}, S: olareg.New(mc), Slots: map[string]string{}, Aux: map[string]string{}}
				vrt.Quiesce()
				tMD := transcript(mw)
				_ = mw.CloseServer()
				// (a) close and reopen
				tBefore := transcript(w)
				_ = w.Reopen()
				tAfter := transcript(w)
				if tAfter != tBefore {
					sig := "answers-differ-after-restart"
					if histHas(w, "restart") && onlyLoss(tBefore, tAfter) {
						sig = "collectable-content-left-by-passes-after-restart-is-removed-at-close"
					}
					vs = append(vs, h.V("restart-equivalence", sig, "read answers differ after Close and reopening the directory:\n%s", lineDiffLabeled("before", "after", tBefore, tAfter)))
				}
				if tMD != tBefore && !(histHas(w, "restart") && onlyLoss(tBefore, tAfter)) {
					vs = append(vs, h.V("layered-store-equivalence", "memory-over-directory-differs", "a memory store opened over the directory answers differently:\n%s", lineDiffLabeled("dir", "mem+dir", tBefore, tMD)))
				}
				for _, r := range c10Repos {
					vs = append(vs, c10ValidateLayout(w, f, r, items, tags)...)
				}
				return vs
			},
			NonTriv:  func(w *h.World) bool { return w.Dir != "" && len(storeBlobsDir(w.Dir)) > 0 },
			MaxDepth: depth,
		})
	}
	return specs
}

// onlyLoss reports whether every differing line of two transcripts is "200 in a, 404 in b".
func onlyLoss(a, b string) bool {
	al, bl := strings.Split(a, "\n"), strings.Split(b, "\n")
	if len(al) != len(bl) {
		return false
	}
	n := 0
	for i := range al {
		if al[i] == bl[i] {
			continue
		}
		n++
		if strings.HasPrefix(al[i], "referrers ") && strings.HasSuffix(bl[i], "-> []") {
			continue
		}
		if strings.HasPrefix(al[i], "tags -> 200 [") && strings.HasPrefix(bl[i], "tags -> 200 [") {
			// the side that kept the content also accepted a later push that needed it: its tag list is a superset
			sup := true
			have := map[string]bool{}
			for _, t := range strings.Fields(strings.Trim(strings.TrimPrefix(al[i], "tags -> 200 "), "[]")) {
				have[t] = true
			}
			for _, t := range strings.Fields(strings.Trim(strings.TrimPrefix(bl[i], "tags -> 200 "), "[]")) {
				if !have[t] {
					sup = false
				}
			}
			if sup {
				continue
			}
		}
		if !(strings.Contains(al[i], "-> 200 ") && strings.Contains(bl[i], "-> 404 ")) {
			return false
		}
	}
	return n > 0
}

func histHas(w *h.World, sub string) bool {
	for _, n := range w.Hist {
		if strings.Contains(n, sub) {
			return true
		}
	}
	return false
}

func lineDiffLabeled(la, lb, a, b string) string {
	d := lineDiff(a, b)
	d = strings.ReplaceAll(d, "before:", la+":")
	d = strings.ReplaceAll(d, "after: ", lb+":")
	return d
}

func init() {
	h.RegisterSeq(&h.SeqCheck{
		ID:    "C10",
		Level: "model_checking",
		Rule: "breadth-first search over all histories (bounded depth) of step-by-step pushes (blobs under sha256 and sha384, manifests by tag, by sha256 and by sha512 digest, index, artifact) into repositories r, r/n and s, deletes (tag, digest, blob), collection ticks at any point (also between the uploads and the manifest of a first push), repository-cache expiry and restarts on the directory store, with a frozen clock and with 2 s per request (which defeats the 1 s index re-check window); every request is mirrored to a memory store; " +
			"in every distinct state each repository directory is validated (oci-layout, index.json, unique tags, entry blobs with recorded size and digest, blob paths, file = API), then compared with the memory store, with a memory store layered over the directory, and with itself after Close + reopen; non-trivial = a blob on disk",
		Assume: []string{"read answers = status, Content-Type, Docker-Content-Digest, Content-Length, body hash, Link of every item / tag / referrers list of the universe"},
		Specs:  c10Specs,
		Budget: func(tier string) time.Duration {
			if tier == "thorough" {
				return 14 * time.Minute
			}
			return 110 * time.Second
		},
	})
}
