#!/bin/bash
# tools/seedproc.sh <root> <suffix> <Cxx> [check ...]: confirm a finished sub-agent change, store it, run the checks against it
root=$1; suf=$2; id=$3; shift; shift; shift
SEEDROOT=$root SEEDSUFFIX=$suf /verif/tools/seedconfirm.sh $id 2>&1 | tail -2
SEEDROOT=$root /verif/tools/seedcheck.sh $id quick "$@" 2>&1 | cut -c1-330
