package h

import (
	"bufio"
	"bytes"
	"encoding/json"
	"fmt"
	"io"
	"os"
	"os/exec"
	"runtime/debug"
	"strings"
	"sync"
	"time"
)

func debugStack() []byte { return debug.Stack() }

// Job is one unit of work for a worker subprocess. All exploration runs in workers: the
// runtime is a process-wide singleton, a fatal runtime error or a hang must not take the
// coordinator down, and 16 cores are used by running 16 workers.
type Job struct {
	Kind string          `json:"kind"`
	Arg  json.RawMessage `json:"arg"`
}

type JobResult struct {
	Out   json.RawMessage `json:"out,omitempty"`
	Error string          `json:"error,omitempty"` // infrastructure error or worker death
	Died  bool            `json:"died,omitempty"`  // worker process died or timed out while running this job
	Log   string          `json:"log,omitempty"`
}

var handlers = map[string]func(arg json.RawMessage) (any, error){}

// RegisterJob installs the worker-side handler of a job kind.
func RegisterJob(kind string, f func(arg json.RawMessage) (any, error)) { handlers[kind] = f }

// WorkerMain is the loop of a worker subprocess (vcheck --worker).
func WorkerMain() {
	in := bufio.NewReaderSize(os.Stdin, 1<<20)
	out := bufio.NewWriter(os.Stdout)
	for {
		line, err := in.ReadBytes('\n')
		if len(line) > 0 {
			var j Job
			res := JobResult{}
			if e := json.Unmarshal(line, &j); e != nil {
				res.Error = "bad job: " + e.Error()
			} else if hnd, ok := handlers[j.Kind]; !ok {
				res.Error = "unknown job kind " + j.Kind
			} else {
				func() {
					defer func() {
						if p := recover(); p != nil {
							res.Error = fmt.Sprintf("worker panic: %v\n%s", p, debug.Stack())
						}
					}()
					o, e := hnd(j.Arg)
					if e != nil {
						res.Error = e.Error()
					} else {
						b, e := json.Marshal(o)
						if e != nil {
							res.Error = "marshal: " + e.Error()
						}
						res.Out = b
					}
				}()
			}
			b, _ := json.Marshal(res)
			out.Write(b)
			out.WriteByte('\n')
			out.Flush()
		}
		if err != nil {
			return
		}
	}
}

type worker struct {
	cmd    *exec.Cmd
	stdin  io.WriteCloser
	stdout *bufio.Reader
	stderr *tailBuf
}

type tailBuf struct {
	mu sync.Mutex
	b  []byte
}

func (t *tailBuf) Write(p []byte) (int, error) {
	t.mu.Lock()
	defer t.mu.Unlock()
	t.b = append(t.b, p...)
	if len(t.b) > 512<<10 {
		t.b = t.b[len(t.b)-(256<<10):]
	}
	return len(p), nil
}

func (t *tailBuf) String() string {
	t.mu.Lock()
	defer t.mu.Unlock()
	return string(t.b)
}

// Pool runs jobs on worker subprocesses.
type Pool struct {
	N          int
	JobTimeout time.Duration
	Env        []string
	Exe        string // worker executable (default: this binary)
	mu         sync.Mutex
	idle       []*worker
	Restarts   int
	// TimeoutRetries counts jobs that were run a second time after exceeding the wall-clock limit
	TimeoutRetries int
}

func NewPool(n int) *Pool {
	return &Pool{N: n, JobTimeout: 300 * time.Second}
}

func (p *Pool) start() (*worker, error) {
	exe := p.Exe
	if exe == "" {
		exe = os.Args[0]
	}
	cmd := exec.Command(exe, "--worker")
	cmd.Env = append(os.Environ(), "GOMAXPROCS=2", "GOTRACEBACK=single")
	cmd.Env = append(cmd.Env, p.Env...)
	stdin, err := cmd.StdinPipe()
	if err != nil {
		return nil, err
	}
	stdout, err := cmd.StdoutPipe()
	if err != nil {
		return nil, err
	}
	tb := &tailBuf{}
	cmd.Stderr = tb
	if err := cmd.Start(); err != nil {
		return nil, err
	}
	return &worker{cmd: cmd, stdin: stdin, stdout: bufio.NewReaderSize(stdout, 1<<20), stderr: tb}, nil
}

func (p *Pool) get() (*worker, error) {
	p.mu.Lock()
	if n := len(p.idle); n > 0 {
		w := p.idle[n-1]
		p.idle = p.idle[:n-1]
		p.mu.Unlock()
		return w, nil
	}
	p.mu.Unlock()
	return p.start()
}

func (p *Pool) put(w *worker) {
	p.mu.Lock()
	p.idle = append(p.idle, w)
	p.mu.Unlock()
}

func (w *worker) kill() {
	_ = w.stdin.Close()
	_ = w.cmd.Process.Kill()
	_, _ = w.cmd.Process.Wait()
}

// Close stops all idle workers.
func (p *Pool) Close() {
	p.mu.Lock()
	defer p.mu.Unlock()
	for _, w := range p.idle {
		w.kill()
	}
	p.idle = nil
}

// runOne runs a job; a job whose worker exceeded the wall-clock limit is run once more, alone on a fresh worker with
// three times the limit: on a loaded machine the first attempt says nothing about the code under test (its hangs are
// found by the controlled scheduler as "no enabled thread"; this clock only guards against what the scheduler cannot
// see), and only a job that times out twice is reported as dead.
func (p *Pool) runOne(j Job) JobResult {
	t0 := time.Now()
	defer func() {
		if d := time.Since(t0); d > 20*time.Second && os.Getenv("VERIF_POOLDEBUG") != "" {
			b, _ := json.Marshal(j)
			fmt.Fprintf(os.Stderr, "POOL: job took %v: %.300s\n", d, b)
		}
	}()
	r := p.runOnce(j, p.JobTimeout)
	if r.Died && strings.Contains(r.Error, "timed out") {
		p.mu.Lock()
		p.TimeoutRetries++
		p.mu.Unlock()
		if os.Getenv("VERIF_POOLDEBUG") != "" {
			fmt.Fprintf(os.Stderr, "POOL: job timed out (%s), retrying; worker log:\n%s\n", r.Error, r.Log)
		}
		r2 := p.runOnce(j, 3*p.JobTimeout)
		if r2.Died {
			r2.Error += " (second attempt, three times the limit)"
		}
		return r2
	}
	return r
}

func (p *Pool) runOnce(j Job, limit time.Duration) JobResult {
	w, err := p.get()
	if err != nil {
		return JobResult{Error: "cannot start worker: " + err.Error()}
	}
	b, _ := json.Marshal(j)
	b = append(b, '\n')
	type rd struct {
		line []byte
		err  error
	}
	ch := make(chan rd, 1)
	go func() {
		if _, err := w.stdin.Write(b); err != nil {
			ch <- rd{nil, err}
			return
		}
		line, err := w.stdout.ReadBytes('\n')
		ch <- rd{line, err}
	}()
	select {
	case r := <-ch:
		if r.err != nil || len(r.line) == 0 {
			time.Sleep(50 * time.Millisecond)
			log := w.stderr.String()
			w.kill()
			p.mu.Lock()
			p.Restarts++
			p.mu.Unlock()
			return JobResult{Died: true, Error: "worker died", Log: tail(log, 6000)}
		}
		var res JobResult
		if e := json.Unmarshal(bytes.TrimSpace(r.line), &res); e != nil {
			w.kill()
			return JobResult{Error: "bad worker output: " + e.Error()}
		}
		p.put(w)
		return res
	case <-time.After(limit):
		// ask for goroutine dump, then kill
		extra := ""
		if os.Getenv("VERIF_POOLDEBUG") != "" {
			pid := w.cmd.Process.Pid
			if ents, err := os.ReadDir(fmt.Sprintf("/proc/%d/task", pid)); err == nil {
				for _, e := range ents {
					wc, _ := os.ReadFile(fmt.Sprintf("/proc/%d/task/%s/wchan", pid, e.Name()))
					sc, _ := os.ReadFile(fmt.Sprintf("/proc/%d/task/%s/syscall", pid, e.Name()))
					st, _ := os.ReadFile(fmt.Sprintf("/proc/%d/task/%s/stat", pid, e.Name()))
					extra += fmt.Sprintf("task %s wchan=%s syscall=%.60s stat=%.60s\n", e.Name(), wc, sc, st)
				}
			}
		}
		_ = w.cmd.Process.Signal(sigQuit)
		time.Sleep(1500 * time.Millisecond)
		log := extra + w.stderr.String()
		if os.Getenv("VERIF_POOLDEBUG") != "" {
			_ = os.WriteFile(fmt.Sprintf("/dev/shm/pooldump-%d.txt", w.cmd.Process.Pid), []byte(log), 0o644)
		}
		w.kill()
		p.mu.Lock()
		p.Restarts++
		p.mu.Unlock()
		return JobResult{Died: true, Error: fmt.Sprintf("worker timed out after %v", limit), Log: tail(log, 6000)}
	}
}

func tail(s string, n int) string {
	if len(s) > n {
		return "…" + s[len(s)-n:]
	}
	return s
}

// Run executes the jobs in parallel and returns results in job order. stop may be nil; when it
// returns true remaining jobs are skipped (result.Error = "skipped").
func (p *Pool) Run(jobs []Job, stop func() bool) []JobResult {
	res := make([]JobResult, len(jobs))
	var wg sync.WaitGroup
	idx := make(chan int)
	n := p.N
	if n > len(jobs) {
		n = len(jobs)
	}
	for k := 0; k < n; k++ {
		wg.Add(1)
		go func() {
			defer wg.Done()
			for i := range idx {
				if stop != nil && stop() {
					res[i] = JobResult{Error: "skipped"}
					continue
				}
				res[i] = p.runOne(jobs[i])
			}
		}()
	}
	for i := range jobs {
		idx <- i
	}
	close(idx)
	wg.Wait()
	return res
}

func MkJob(kind string, arg any) Job {
	b, err := json.Marshal(arg)
	if err != nil {
		panic(err)
	}
	return Job{Kind: kind, Arg: b}
}

func IsSkipped(r JobResult) bool { return strings.HasPrefix(r.Error, "skipped") }
