// Package vrand shadows "crypto/rand" in internal/store: session ids are reproducible under
// the controlled runtime (a function of the creating thread and its own counter only).
package vrand

import (
	"crypto/rand"

	"github.com/olareg/olareg/internal/verif/vrt"
)

func Read(b []byte) (int, error) {
	if vrt.IsControlled() {
		vrt.RandRead(b)
		return len(b), nil
	}
	return rand.Read(b)
}
