// Package vsync shadows "sync" in the instrumented build: scheduler-aware wrappers around the
// real primitives (the real primitive underneath keeps the race detector's happens-before
// exact); every other exported name of sync is re-exported by the generated zz_alias.go.
package vsync

import (
	"sync"
	"unsafe"

	"github.com/olareg/olareg/internal/verif/vrt"
)

type Locker = sync.Locker

// Mutex

type Mutex struct {
	mu    sync.Mutex
	held  bool
	owner int
}

//go:norace
func (m *Mutex) VReady(k vrt.OpKind) bool { return !m.held }

// VOwner: the thread that holds the mutex (-1 if it is free); used to find the cycle of a dead-lock.
//
//go:norace
func (m *Mutex) VOwner() int {
	if m.held {
		return m.owner
	}
	return -1
}

//go:norace
func (m *Mutex) Lock() {
	if vrt.IsControlled() {
		vrt.Point(vrt.OpLock, m, uintptr(unsafe.Pointer(m)), 0, 0, "Mutex.Lock")
		m.held = true
		m.owner = vrt.Cur()
	}
	m.mu.Lock()
}

//go:norace
func (m *Mutex) TryLock() bool {
	if vrt.IsControlled() {
		if m.held {
			return false
		}
		vrt.Note(vrt.OpLock, uintptr(unsafe.Pointer(m)))
		m.held = true
		m.owner = vrt.Cur()
		return m.mu.TryLock()
	}
	return m.mu.TryLock()
}

//go:norace
func (m *Mutex) Unlock() {
	if vrt.IsControlled() {
		if !m.held {
			if vrt.Aborting() {
				return
			}
			panic("sync: unlock of unlocked mutex")
		}
		m.held = false
		vrt.Note(vrt.OpUnlock, uintptr(unsafe.Pointer(m)))
	}
	m.mu.Unlock()
}

// Held reports the modelled state (for state dumps).
//
//go:norace
func (m *Mutex) Held() bool { return m.held }

// RWMutex

type RWMutex struct {
	mu      sync.RWMutex
	writer  bool
	readers int
}

//go:norace
func (m *RWMutex) VReady(k vrt.OpKind) bool {
	if k == vrt.OpRLock {
		return !m.writer
	}
	return !m.writer && m.readers == 0
}

//go:norace
func (m *RWMutex) Lock() {
	if vrt.IsControlled() {
		vrt.Point(vrt.OpLock, m, uintptr(unsafe.Pointer(m)), 0, 0, "RWMutex.Lock")
		m.writer = true
	}
	m.mu.Lock()
}

//go:norace
func (m *RWMutex) Unlock() {
	if vrt.IsControlled() {
		if !m.writer {
			if vrt.Aborting() {
				return
			}
			panic("sync: Unlock of unlocked RWMutex")
		}
		m.writer = false
		vrt.Note(vrt.OpUnlock, uintptr(unsafe.Pointer(m)))
	}
	m.mu.Unlock()
}

//go:norace
func (m *RWMutex) RLock() {
	if vrt.IsControlled() {
		vrt.Point(vrt.OpRLock, m, uintptr(unsafe.Pointer(m)), 0, 0, "RWMutex.RLock")
		m.readers++
	}
	m.mu.RLock()
}

//go:norace
func (m *RWMutex) RUnlock() {
	if vrt.IsControlled() {
		if m.readers == 0 {
			if vrt.Aborting() {
				return
			}
			panic("sync: RUnlock of unlocked RWMutex")
		}
		m.readers--
		vrt.Note(vrt.OpRUnlock, uintptr(unsafe.Pointer(m)))
	}
	m.mu.RUnlock()
}

//go:norace
func (m *RWMutex) TryLock() bool {
	if vrt.IsControlled() {
		if m.writer || m.readers > 0 {
			return false
		}
		m.writer = true
		vrt.Note(vrt.OpLock, uintptr(unsafe.Pointer(m)))
	}
	return m.mu.TryLock()
}

//go:norace
func (m *RWMutex) TryRLock() bool {
	if vrt.IsControlled() {
		if m.writer {
			return false
		}
		m.readers++
		vrt.Note(vrt.OpRLock, uintptr(unsafe.Pointer(m)))
	}
	return m.mu.TryRLock()
}

type rlocker RWMutex

func (r *rlocker) Lock()   { (*RWMutex)(r).RLock() }
func (r *rlocker) Unlock() { (*RWMutex)(r).RUnlock() }

func (m *RWMutex) RLocker() Locker { return (*rlocker)(m) }

// WaitGroup

type WaitGroup struct {
	wg sync.WaitGroup
	n  int
}

//go:norace
func (w *WaitGroup) VReady(k vrt.OpKind) bool { return w.n <= 0 }

//go:norace
func (w *WaitGroup) Add(delta int) {
	if vrt.IsControlled() {
		if w.n+delta < 0 && vrt.Aborting() {
			return
		}
		w.n += delta
		vrt.Note(vrt.OpWgAdd, uintptr(unsafe.Pointer(w)))
	}
	w.wg.Add(delta)
}

func (w *WaitGroup) Done() { w.Add(-1) }

//go:norace
func (w *WaitGroup) Wait() {
	if vrt.IsControlled() {
		vrt.Point(vrt.OpWait, w, uintptr(unsafe.Pointer(w)), 0, 0, "WaitGroup.Wait")
	}
	w.wg.Wait()
}

// Count reports the modelled counter (for state dumps).
//
//go:norace
func (w *WaitGroup) Count() int { return w.n }

// Once

type Once struct {
	o       sync.Once
	running bool
}

//go:norace
func (o *Once) VReady(k vrt.OpKind) bool { return !o.running }

//go:norace
func (o *Once) Do(f func()) {
	if vrt.IsControlled() {
		vrt.Point(vrt.OpOnce, o, uintptr(unsafe.Pointer(o)), 0, 0, "Once.Do")
		o.running = true
		defer o.doneRunning()
	}
	o.o.Do(f)
}

//go:norace
func (o *Once) doneRunning() {
	o.running = false
	vrt.Note(vrt.OpUnlock, uintptr(unsafe.Pointer(o)))
}

func OnceFunc(f func()) func() {
	var once Once
	return func() { once.Do(f) }
}

func OnceValue[T any](f func() T) func() T {
	var once Once
	var r T
	return func() T { once.Do(func() { r = f() }); return r }
}

func OnceValues[T1, T2 any](f func() (T1, T2)) func() (T1, T2) {
	var once Once
	var r1 T1
	var r2 T2
	return func() (T1, T2) { once.Do(func() { r1, r2 = f() }); return r1, r2 }
}

// Cond is not modelled: waiting on it under the controlled scheduler is an infrastructure error.

type Cond struct {
	L Locker
	c *sync.Cond
}

func NewCond(l Locker) *Cond { return &Cond{L: l, c: sync.NewCond(l)} }

func (c *Cond) Wait() {
	if vrt.IsControlled() {
		panic("vrt: unsupported construct: sync.Cond.Wait")
	}
	c.c.Wait()
}
func (c *Cond) Signal()    { c.c.Signal() }
func (c *Cond) Broadcast() { c.c.Broadcast() }
