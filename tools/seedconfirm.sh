#!/bin/bash
# tools/seedconfirm.sh <Cxx>: confirm a seeded change produced in /tmp/seed/<Cxx> (+ -out): the patch applies to a clean
# worktree of /repo HEAD, the tree builds, the repository's own suite passes with it, the demonstration fails with it
# and passes without it. On success the change is stored under /verif/seeded/<Cxx>/.
export GOFLAGS=-mod=mod GOPROXY=off GOSUMDB=off GOTOOLCHAIN=local
id="$1"; root=${SEEDROOT:-/tmp/seed}; src=$root/$id; out=$root/$id-out; wt=/dev/shm/confirm-$id
git -C /repo worktree remove --force $wt 2>/dev/null; rm -rf $wt
git -C /repo worktree add -q --detach $wt HEAD || exit 2
trap "git -C /repo worktree remove --force $wt; rm -rf $wt" EXIT
cd $wt
git -C $src diff > $out/patch.confirm.diff
git apply $out/patch.confirm.diff || { echo "$id: patch does not apply"; exit 1; }
go build ./... || { echo "$id: does not build"; exit 1; }
suite=$(go test -vet=off -count=1 ./... 2>&1 | grep -E "^(FAIL|--- FAIL)" | head -3)
if [ -n "$suite" ]; then suite2=$(go test -vet=off -count=1 ./... 2>&1 | grep -E "^(FAIL|--- FAIL)" | head -3); fi
[ -n "$suite" ] && [ -n "$suite2" ] && { echo "$id: the suite fails with the change: $suite"; exit 1; }
demos=$(git -C $src status --short | awk '$1=="??"{print $2}' | grep '_test.go$')
[ -z "$demos" ] && { echo "$id: no demo test file found"; exit 1; }
pkgs=""; names=""
for d in $demos; do mkdir -p $(dirname $d); cp $src/$d $d; pkgs="$pkgs ./$(dirname $d)/"; names="$names|$(grep -o '^func Test[A-Za-z0-9_]*' $src/$d | sed 's/func //' | paste -sd'|')"; done
names="${names#|}"; pkgs=$(echo $pkgs | tr ' ' '\n' | sort -u | paste -sd' ')
with=$(go test -vet=off -count=1 -run "^($names)\$" $pkgs 2>&1 | grep -cE "^(FAIL|--- FAIL)")
git apply -R $out/patch.confirm.diff
without=$(go test -vet=off -count=1 -run "^($names)\$" $pkgs 2>&1 | grep -cE "^(FAIL|--- FAIL)")
echo "$id: suite with change: ${suite:+flaky-once }passes; demo ($names in $pkgs) with change: $([ $with -gt 0 ] && echo FAILS || echo passes); without: $([ $without -gt 0 ] && echo FAILS || echo passes)"
if [ $with -gt 0 ] && [ $without -eq 0 ]; then
  dst=/verif/seeded/$id${SEEDSUFFIX:-}; mkdir -p $dst
  cp $out/patch.confirm.diff $dst/patch.diff
  for d in $demos; do cp $src/$d $dst/$(echo $d | tr '/' '_'); done
  [ -f $out/notes.md ] && cp $out/notes.md $dst/notes.md
  echo "$demos" > $dst/demo_paths.txt
  echo "$id: stored"
fi
