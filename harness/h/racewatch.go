package h

import (
	"fmt"
	"os"
	"sort"
	"strings"
)

// Race detector report capture (C13): the worker processes of a -race build run with
// GORACE=halt_on_error=0 log_path=<base>; the runtime appends ".<pid>" to the path. After every
// execution the new part of the log is read and every report is normalised to the pair of access sites.

func raceLogBase() string { return fmt.Sprintf("%s/verif-race-%d", scratchRoot, os.Getpid()) }

type raceWatch struct {
	path string
	off  int64
}

func newRaceWatch() *raceWatch {
	g := os.Getenv("GORACE")
	i := strings.Index(g, "log_path=")
	if i < 0 {
		return &raceWatch{}
	}
	p := g[i+len("log_path="):]
	if j := strings.IndexByte(p, ' '); j >= 0 {
		p = p[:j]
	}
	rw := &raceWatch{path: fmt.Sprintf("%s.%d", p, os.Getpid())}
	// reports of earlier jobs of this worker process are not this scenario's
	if fi, err := os.Stat(rw.path); err == nil {
		rw.off = fi.Size()
	}
	return rw
}

// collect returns the normalised reports written since the last call.
func (r *raceWatch) collect() []string {
	if r.path == "" {
		return nil
	}
	b, err := os.ReadFile(r.path)
	if err != nil || int64(len(b)) <= r.off {
		return nil
	}
	txt := string(b[r.off:])
	r.off = int64(len(b))
	return ParseRaceReports(txt)
}

// ParseRaceReports extracts "siteA <-> siteB" from the detector's output.
func ParseRaceReports(txt string) []string {
	var out []string
	for _, blk := range strings.Split(txt, "WARNING: DATA RACE")[1:] {
		var sites []string
		lines := strings.Split(blk, "\n")
		for i := 0; i < len(lines); i++ {
			l := lines[i]
			if strings.HasPrefix(l, "Write at ") || strings.HasPrefix(l, "Read at ") || strings.HasPrefix(l, "Previous write at ") || strings.HasPrefix(l, "Previous read at ") {
				kind := "read"
				if strings.Contains(strings.ToLower(l), "write") {
					kind = "write"
				}
				// first frame that is not runtime / sync / reflect
				site := "?"
				for j := i + 1; j < len(lines) && strings.TrimSpace(lines[j]) != ""; j += 2 {
					fn := strings.TrimSpace(lines[j])
					if k := strings.LastIndex(fn, "("); k > 0 {
						fn = fn[:k]
					}
					if strings.HasPrefix(fn, "runtime.") || strings.HasPrefix(fn, "sync.") || strings.HasPrefix(fn, "reflect.") || strings.HasPrefix(fn, "internal/") {
						continue
					}
					site = strings.TrimPrefix(fn, "github.com/olareg/olareg/")
					break
				}
				sites = append(sites, kind+" in "+site)
				if len(sites) == 2 {
					break
				}
			}
		}
		sort.Strings(sites)
		out = append(out, strings.Join(sites, " <-> "))
	}
	return out
}
