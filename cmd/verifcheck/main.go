package main

import (
	"fmt"
	"net/http"
	"net/http/httptest"
	"os"

	"github.com/olareg/olareg"
	"github.com/olareg/olareg/config"
	"github.com/olareg/olareg/internal/verif/vrt"
)

func main() {
	vrt.Reset(vrt.Config{})
	dir, _ := os.MkdirTemp("/dev/shm", "vprobe")
	defer os.RemoveAll(dir)
	s := olareg.New(config.Config{Storage: config.ConfigStorage{StoreType: config.StoreDir, RootDir: dir}})
	req := httptest.NewRequest("POST", "/v2/a/blobs/uploads/?digest=sha256:e3b0c44298fc1c149afbf4c8996fb92427ae41e4649b934ca495991b7852b855", http.NoBody)
	rec := httptest.NewRecorder()
	s.ServeHTTP(rec, req)
	vrt.Quiesce()
	fmt.Println(rec.Code, rec.Header())
	fmt.Println("blocked:", vrt.Blocked(), "timers:", vrt.PendingTimers())
	vrt.Advance(16*60*1e9, false)
	fmt.Println("after tick; timers:", vrt.PendingTimers())
	_ = s.Close()
	vrt.Finish()
	fmt.Println("steps", vrt.Steps())
}
