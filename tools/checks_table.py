NA = {}
TRUSTED = ("Trusted base: the rewriter and shims preserve the semantics of the code they instrument (original statements stay in place; hooks are inserted before them); "
           "the Go toolchain; the reference model written from the property statement. Bounded: universe, depth and caps are reported in the evidence.")

add("C03", "SEQ", "model_checking", "explicit-state BFS over request histories on the implementation, to closure",
    "All histories of tag pushes, digest pushes, tag deletes and digest deletes over 2 manifests x 2-3 tags are explored breadth-first on the real handler (both stores) until the canonical state set is closed; in every distinct state tag resolution, the listing and the whole n x last matrix are compared with a map model. Closure means unbounded history length inside the universe.",
    TRUSTED, "DESIGN.md section 4 C03")

add("C18", "SEQ", "model_checking", "explicit-state BFS over operation sequences on the real types.Index, to closure",
    "All sequences of AddDesc (untagged, tag, referrer-subject; with and without the children option), RmDesc (digest, digest+tag, tag alone, subject alone) and AddChildren over 2 (quick) / 3 (thorough) digests, 2 tags and 2 subjects are explored breadth-first on the real type until the exact dump (entry order preserved) is closed; in every distinct state GetDesc, GetByAnnotation and Copy are checked against the invariants of the statement and a tag map model.",
    TRUSTED, "DESIGN.md section 4 C18")

add("C07", "SEQ", "model_checking", "explicit-state BFS over request histories on the implementation (bounded depth), model comparison in every state",
    "All histories up to the stated depth of artifact pushes (by digest, by tag, tag overwrite), deletes by tag and digest, subject delete / re-push, restart and a cache-warming filtered read are explored on both stores and several Referrer.Limit values; in every distinct state, for every subject and filter, the union of the Link chain (each request issued twice) is compared with the model, plus page sizes, OCI-Filters-Applied and continuation links replayed against other subjects.",
    TRUSTED, "DESIGN.md section 4 C07")
