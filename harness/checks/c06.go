package checks

import (
	"fmt"
	"github.com/olareg/olareg/types"
	"net/url"
	"os"
	"path/filepath"
	"sort"
	"strings"
	"time"

	"github.com/olareg/olareg/config"
	"github.com/olareg/olareg/internal/verif/h"
	"github.com/olareg/olareg/internal/verif/vrt"
)

// C06 — collection removes exactly the garbage, converges, and is not starved.

func c06Fix() *Fix {
	f := StdFix()
	f.Blob("dang", "application/octet-stream", []byte("dangling blob"))
	f.Image("Au", mtImg, "e", nil, "I2", "application/x.test", nil)                 // referrer of an untagged image
	f.Image("Apr", mtImg, "e", nil, f.Items["dang"].Dig, "application/x.test", nil) // referrer whose subject is a dangling blob that is pruned
	f.Items["Apr"].Subject = ""                                                     // the subject is not a manifest item
	return f
}

// RetainedExact: what one pass of the documented policies keeps once nothing is younger than the grace period
// (the five policy combinations pinned by TestGarbageCollect).
func (r *MRepo) RetainedExact(f *Fix, p GCPolicy) map[string]bool {
	keep := map[string]bool{}
	walked := map[string]bool{}
	var walk func(n string)
	subjectBlobExists := func(a *Item) bool {
		for n := range r.Cas {
			if f.Items[n].Dig == a.SubjDig {
				return true
			}
		}
		return false
	}
	walk = func(n string) {
		keep[n] = true
		if walked[n] {
			return
		}
		walked[n] = true
		it := f.Items[n]
		if !it.Manifest {
			return
		}
		if _, has := r.Cas[n]; !has {
			// the bytes of the manifest are gone (removed through the blob API): nothing is reachable through it
			delete(keep, n)
			return
		}
		if it.Config != "" {
			keep[it.Config] = true
		}
		for _, l := range it.Layers {
			keep[l] = true
		}
		for _, c := range it.Children {
			if f.Items[c].Manifest {
				walk(c)
			} else {
				keep[c] = true
			}
		}
		for a := range r.Mans {
			if f.Items[a].SubjDig == it.Dig {
				walk(a)
			}
		}
	}
	for _, m := range r.Tags {
		walk(m)
	}
	for n := range r.Mans {
		if !p.Untagged && f.Items[n].SubjDig == "" {
			walk(n)
		}
	}
	// referrers whose subject is not walked
	for changed := true; changed; {
		changed = false
		for a := range r.Mans {
			it := f.Items[a]
			if it.SubjDig == "" || keep[a] {
				continue
			}
			e := subjectBlobExists(it)
			k := false
			switch {
			case p.WithSubj && e:
				k = false // only with its subject
			case !p.Dangling:
				k = true
			case e:
				k = false
			default:
				k = !p.Untagged
			}
			if k {
				walk(a)
				changed = true
			}
		}
	}
	return keep
}

func c06Policies(tier string) []GCPolicy {
	type fr struct{ g, f time.Duration }
	times := []fr{{-1, 15 * time.Minute}, {time.Hour, 15 * time.Minute}}
	if tier == "thorough" {
		times = append(times, fr{time.Hour, 2 * time.Hour})
	}
	var out []GCPolicy
	for _, t := range times {
		for _, c := range [][3]bool{{false, false, false}, {false, false, true}, {true, false, true}, {true, true, false}, {true, true, true}} {
			out = append(out, GCPolicy{Untagged: c[0], Dangling: c[1], WithSubj: c[2], EmptyRepo: true, Grace: t.g, Freq: t.f})
		}
	}
	return out
}

// settle advances the clock until everything present is older than the grace period and one more regular tick has passed.
func c06Settle(p GCPolicy, keepAlive func()) {
	adv := func(d time.Duration) {
		// with read traffic the repositories never leave the directory store's repository cache,
		// so that only the ticker passes collect them
		for keepAlive != nil && d > 10*time.Minute {
			vrt.Advance(10*time.Minute, false)
			keepAlive()
			d -= 10 * time.Minute
		}
		vrt.Advance(d, false)
	}
	if p.Grace > 0 {
		adv(p.Grace + 31*time.Second)
	}
	if d := vrt.NextPeriodic(); d >= 0 {
		adv(d)
	}
}

// c06Exact compares what is served with the exact retained set and updates the model to it.
func c06Exact(w *h.World, f *Fix, repo string, p GCPolicy, items []string) []h.Violation {
	m := regM(w).Repo(repo)
	keep := m.RetainedExact(f, p)
	var vs []h.Violation
	for _, n := range items {
		it := f.Items[n]
		_, inCas := m.Cas[n]
		if !inCas || m.Limbo[n] {
			continue
		}
		served := w.Head("/v2/"+repo+"/blobs/"+it.Dig).Status == 200
		if keep[n] && !served {
			vs = append(vs, h.V("retained-content-survives", "retained-item-gone:"+kindOf(it), "%s is retained by policy %s but its blob is gone after the pass", n, p.Name()))
		}
		if !keep[n] && served {
			vs = append(vs, h.V("garbage-removed", "garbage-left:"+kindOf(it), "%s (%s) is garbage under policy %s and older than the grace period, but it is still there after a regular pass", n, short(it.Dig), p.Name()))
		}
		if it.Manifest {
			if _, inIdx := m.Mans[n]; inIdx {
				ms := w.HeadManifest(repo, it.Dig).Status == 200
				if keep[n] && !ms {
					vs = append(vs, h.V("retained-content-survives", "retained-manifest-unlisted:"+kindOf(it), "%s is retained by policy %s but is not served as a manifest after the pass", n, p.Name()))
				}
				if !keep[n] && ms {
					vs = append(vs, h.V("garbage-removed", "garbage-manifest-listed:"+kindOf(it), "%s is garbage under policy %s but is still served as a manifest after a regular pass", n, p.Name()))
				}
			}
		}
	}
	// the model continues from what the policy keeps
	for n := range m.Cas {
		if !keep[n] && !m.Limbo[n] {
			delete(m.Cas, n)
			delete(m.Mans, n)
			delete(m.ManMT, n)
		}
	}
	return vs
}

// c06Stable: a second pass changes nothing (directory listing without times + read transcript).
func c06Stable(w *h.World, f *Fix, repos []string, items, tags, subjects []string) []h.Violation {
	snap := func() string {
		var sb strings.Builder
		for _, r := range repos {
			// A manifest that was deleted by digest while a present index still lists it keeps its body, and
			// index.json has no record of the delete: whether GET by digest knows it depends on when the
			// repository was last loaded from disk (the cache entry may expire between two passes), not on
			// the collector. The statement leaves that answer open (as in C10), so it is not compared.
			m := regM(w).Repos[r]
			sb.WriteString("== " + r + "\n")
			for _, ln := range strings.SplitAfter(ReadTranscript(w, f, r, items, tags, subjects), "\n") {
				if m != nil && strings.HasPrefix(ln, "GET manifest ") {
					n := strings.Fields(ln)[2]
					_, inMans := m.Mans[n]
					_, inCas := m.Cas[n]
					if !inMans && inCas {
						continue
					}
				}
				sb.WriteString(ln)
			}
		}
		if w.Dir != "" && w.Conf.Store == "dir" {
			var lines []string
			for _, l := range strings.Split(h.DumpTree(w.Dir), "\n") {
				fl := strings.Fields(l)
				if len(fl) >= 3 {
					l = strings.Join(fl[:3], " ") // path size hash, no times
				}
				lines = append(lines, l)
			}
			sort.Strings(lines)
			sb.WriteString(strings.Join(lines, "\n"))
		}
		return sb.String()
	}
	before := snap()
	if d := vrt.NextPeriodic(); d >= 0 {
		vrt.Advance(d, false)
	} else {
		return nil
	}
	if after := snap(); after != before {
		return []h.Violation{h.V("second-pass-changes-nothing", "second-pass-changed-state", "a second collection pass changed the state:\n%s", lineDiff(before, after))}
	}
	return nil
}

// c06Layout: no index entry without backing content; an empty repository is removed when so configured.
func c06Layout(w *h.World, repo string, p GCPolicy) []h.Violation {
	if w.Dir == "" || w.Conf.Store != "dir" {
		return nil
	}
	var vs []h.Violation
	dir := filepath.Join(w.Dir, repo)
	idx, err := readIndexFile(dir)
	if err != nil {
		if os.IsNotExist(err) {
			return nil
		}
		return []h.Violation{h.V("index-parses", "index-unreadable", "index.json of %s: %v", repo, err)}
	}
	for _, d := range idx.Manifests {
		alg, hx, _ := strings.Cut(d.Digest.String(), ":")
		if _, err := os.Stat(filepath.Join(dir, "blobs", alg, hx)); err != nil {
			vs = append(vs, h.V("no-entry-without-content", "index-entry-without-blob", "index.json of %s lists %s which has no blob", repo, short(d.Digest.String())))
		}
	}
	if p.EmptyRepo && len(idx.Manifests) == 0 {
		// an index without entries after a pass: the repository holds nothing the policy keeps unless blobs are young or sessions open
		ents, _ := os.ReadDir(filepath.Join(dir, "blobs", "sha256"))
		ups, _ := os.ReadDir(filepath.Join(dir, "_uploads"))
		sub := false
		if all, err := os.ReadDir(dir); err == nil {
			for _, e := range all {
				if e.IsDir() && e.Name() != "blobs" && e.Name() != "_uploads" {
					sub = true
				}
			}
		}
		if len(ents) == 0 && len(ups) == 0 && !sub {
			vs = append(vs, h.V("empty-repo-removed", "empty-repository-left", "repository %s is empty after the pass and EmptyRepo is on, but its directory is still there", repo))
		}
	}
	return vs
}

func c06Specs(tier string) []*h.SeqSpec {
	f := c06Fix()
	odd := f.Raw("Odd", f.Items["A1"], []byte(strings.Replace(string(f.Items["A1"].Data), f.Items["I1"].Dig, "bogus", 1)))
	odd.Subject, odd.SubjDig = "", ""
	items := []string{"c", "l1", "l2", "e", "dang", "I1", "I2", "X", "A1", "A4", "A5", "Au", "Apr"}
	tags := []string{"t1", "x", "a"}
	subjects := []string{f.Items["I1"].Dig, f.Items["I2"].Dig}
	var specs []*h.SeqSpec
	// ---- part A: one repository, exactness and convergence
	const repo = "r"
	for _, store := range []string{"mem", "dir", "memdir"} {
		for pi, pol := range c06Policies(tier) {
			store, pol := store, pol
			if store == "memdir" && pi > 0 && os.Getenv("VERIF_C06_ALLMEMDIR") == "" {
				// the memory store over a directory that already holds content: only the policy that keeps untagged manifests and
				// every referrer (what a store does about collectable content it has not been asked for yet is C10's known
				// finding; with ReferrersWithSubj on, referrers of a subject that lives on disk only were seen to need a second
				// pass in the thorough tier - not analysed to the end and not claimed either way, see DESIGN section 5)
				continue
			}
			var ops []h.Op
			macro := func(n, tag string) {
				name := "push " + n + " completely"
				if tag != "" {
					name += " as " + tag
				}
				ops = append(ops, h.Op{Name: name, Do: func(w *h.World) []h.Violation { return gcPushMacro(w, f, repo, n, tag) }})
			}
			macro("I1", "t1")
			macro("I2", "")
			macro("X", "x")
			macro("A1", "")
			macro("A1", "a")
			macro("A4", "")
			macro("A5", "")
			macro("Au", "")
			ops = append(ops, opPushBlob("C06", repo, f, "dang"))
			ops = append(ops, h.Op{Name: "push Apr completely (its subject is the dangling blob)", Do: func(w *h.World) []h.Violation {
				m := regM(w).Repo(repo)
				if _, ok := m.Cas["dang"]; !ok {
					if r := w.PushBlob(repo, f.Items["dang"].Data, f.Items["dang"].Dig); r.Status == 201 {
						m.PushBlob("dang")
					}
				}
				return gcPushMacro(w, f, repo, "Apr", "")
			}})
			for _, t := range []string{"t1", "x"} {
				t := t
				ops = append(ops, h.Op{Name: "delete tag " + t, Do: func(w *h.World) []h.Violation {
					w.Delete("/v2/" + repo + "/manifests/" + t)
					regM(w).Repo(repo).DeleteTag(t)
					return nil
				}})
			}
			ops = append(ops, h.Op{Name: "delete I1 by digest", Do: func(w *h.World) []h.Violation {
				w.Delete("/v2/" + repo + "/manifests/" + f.Items["I1"].Dig)
				regM(w).Repo(repo).DeleteManifest("I1")
				return nil
			}})
			// the bytes of a listed manifest removed through the blob API: its index entry has no backing content any more,
			// the next pass has to drop it ("leaves no index entry without backing content")
			ops = append(ops, h.Op{Name: "delete the bytes of I2 through the blob API", Do: func(w *h.World) []h.Violation {
				m := regM(w).Repo(repo)
				if r := w.Delete("/v2/" + repo + "/blobs/" + f.Items["I2"].Dig); r.Status == 202 {
					m.DeleteManifest("I2")
					delete(m.Cas, "I2")
				}
				return nil
			}})
			for _, traffic := range []bool{false, true} {
				traffic := traffic
				name := "settle (idle): everything older than grace, one regular pass, then a second pass"
				if traffic {
					name = "settle (with read traffic): everything older than grace, one regular pass, then a second pass"
				}
				ops = append(ops, h.Op{Name: name, Do: func(w *h.World) []h.Violation {
					var ka func()
					if traffic {
						ka = func() { w.Tags(repo, "") }
					}
					c06Settle(pol, ka)
					vs := c06Exact(w, f, repo, pol, items)
					vs = append(vs, c06Layout(w, repo, pol)...)
					vs = append(vs, c06Stable(w, f, []string{repo}, items, tags, subjects)...)
					return vs
				}})
			}
			depth := 3
			if tier == "thorough" {
				depth = 4
			}
			specs = append(specs, &h.SeqSpec{
				Name: fmt.Sprintf("c06-%s-%s-F%s", store, pol.Name(), pol.Freq),
				Conf: &h.Conf{Name: store, Store: store, Mod: func(c *config.Config) { pol.Apply(c) }, Prep: func(dir string) {
					if store != "memdir" {
						return
					}
					// the directory already holds I1 (tagged t1), I2 (untagged) and their blobs: the memory store serves them
					// from disk until they are pushed again, and has to hide them once they are collected
					l := NewLayout()
					for _, n := range []string{"c", "l1", "l2", "I1", "I2"} {
						l.AddItem(f.Items[n])
					}
					l.Entry(f.Items["I1"], tagAnn("t1"))
					l.Entry(f.Items["I2"], nil)
					l.Ann = map[string]string{types.AnnotReferrerConvert: "true"}
					l.Write(filepath.Join(dir, repo))
				}},
				Init: func(w *h.World) {
					m := NewMRegFix(f)
					w.M = m
					if store == "memdir" {
						// what is on disk is exactly as old as what the operations push (they all happen 67 s from now): the model
						// judges retention once, at the settle, and does not follow content of staggered ages through several passes
						now := vrt.Now().Add(67 * time.Second)
						_ = filepath.Walk(w.Dir, func(p string, _ os.FileInfo, err error) error {
							if err == nil {
								_ = os.Chtimes(p, now, now)
							}
							return nil
						})
						r := m.Repo(repo)
						for _, b := range []string{"c", "l1", "l2"} {
							r.PushBlob(b)
						}
						r.PushManifest(f.Items["I1"], "t1")
						r.PushManifest(f.Items["I2"], "")
					}
					if store == "memdir" && os.Getenv("VERIF_C06_ALLMEMDIR") != "" {
						w.Tags(repo, "") // known to the store from the start (a store that has not been asked for a repository does not collect it: C10's finding)
					}
					vrt.Advance(67*time.Second, false)
				},
				Ops:      ops,
				Model:    func(w *h.World) string { return regM(w).String() },
				NonTriv:  func(w *h.World) bool { return len(regM(w).Repo(repo).Cas) > 0 },
				MaxDepth: depth,
			})
		}
	}
	// ---- part B: several repositories, every visit order, failing and vanished repositories (directory store)
	repos3 := []string{"p", "p/n", "q"}
	perms := [][]int{{0, 1, 2}, {0, 2, 1}, {1, 0, 2}, {1, 2, 0}, {2, 0, 1}, {2, 1, 0}}
	polsB := []GCPolicy{{Untagged: true, Dangling: true, WithSubj: true, EmptyRepo: true, Grace: time.Hour, Freq: 15 * time.Minute}}
	if tier == "thorough" {
		polsB = append(polsB, GCPolicy{Untagged: false, Dangling: false, WithSubj: true, EmptyRepo: true, Grace: time.Hour, Freq: 15 * time.Minute},
			GCPolicy{Untagged: true, Dangling: true, WithSubj: true, EmptyRepo: false, Grace: -1, Freq: 15 * time.Minute})
	}
	for _, store := range []string{"dir", "mem"} {
		for _, pol := range polsB {
			store, pol := store, pol
			var ops []h.Op
			for _, r := range repos3 {
				r := r
				ops = append(ops, h.Op{Name: "push a tagged image and garbage (untagged image, dangling blob) to " + r, Do: func(w *h.World) []h.Violation {
					var vs []h.Violation
					vs = append(vs, gcPushMacro(w, f, r, "I1", "t1")...)
					vs = append(vs, gcPushMacro(w, f, r, "I2", "")...)
					if rr := w.PushBlob(r, f.Items["dang"].Data, f.Items["dang"].Dig); rr.Status == 201 {
						regM(w).Repo(r).PushBlob("dang")
					}
					return vs
				}})
			}
			// an artifact whose subject digest is not a digest at all (manifest pushes do not validate it): the pass has to
			// cope with the entry; what becomes of the artifact itself is left open, everything else is demanded as usual
			ops = append(ops, h.Op{Name: "push an artifact with the subject digest \"bogus\" to q", Do: func(w *h.World) []h.Violation {
				m := regM(w).Repo("q")
				for _, b := range append([]string{f.Items["Odd"].Config}, f.Items["Odd"].Layers...) {
					if rr := w.PushBlob("q", f.Items[b].Data, f.Items[b].Dig); rr.Status == 201 {
						m.PushBlob(b)
					}
				}
				odd := f.Items["Odd"]
				if rr := w.PutManifest("q", odd.Dig, odd.MT, odd.Data); rr.Status == 201 {
					m.PushManifest(odd, "")
					m.Limbo["Odd"] = true
				}
				return nil
			}})
			// a mount whose source lacks the blob opens an ordinary session in p; the source q must stay collectable
			ops = append(ops, h.Op{Name: "POST mount into p of a blob that q lacks (from=q), session cancelled", Do: func(w *h.World) []h.Violation {
				r := w.Do(h.Req{Method: "POST", Path: "/v2/p/blobs/uploads/", Query: "mount=" + url.QueryEscape(f.Items["l2"].Dig) + "&from=q"})
				if loc := r.H.Get("Location"); r.Status == 202 && loc != "" {
					w.Delete(loc)
				}
				return nil
			}})
			if store == "dir" {
				ops = append(ops, h.Op{Name: "look q up without writing (cache entry without a directory)", Do: func(w *h.World) []h.Violation {
					w.Tags("q", "")
					return nil
				}})
				ops = append(ops, h.Op{Name: "corrupt index.json of q", Do: func(w *h.World) []h.Violation {
					p := filepath.Join(w.Dir, "q", "index.json")
					if _, err := os.Stat(p); err == nil {
						_ = os.WriteFile(p, []byte("{ not json"), 0o644)
						t := vrt.Now()
						_ = os.Chtimes(p, t, t)
						regM(w).Repo("q").Limbo["*broken"] = true
					}
					return nil
				}})
				// what a removal of the empty repository leaves when it is interrupted after index.json went: a directory that
				// holds nothing but oci-layout. Once a request has named it, every pass meets a repository whose index cannot be
				// loaded - and still has to finish the removal ("removes repositories left empty when so configured")
				ops = append(ops, h.Op{Name: "q on disk holds only oci-layout (interrupted removal), then a request names it", Do: func(w *h.World) []h.Violation {
					if _, used := regM(w).Repos["q"]; used {
						return nil
					}
					d := filepath.Join(w.Dir, "q")
					if _, err := os.Stat(d); err == nil {
						return nil
					}
					_ = os.MkdirAll(d, 0o755)
					_ = os.WriteFile(filepath.Join(d, "oci-layout"), []byte(`{"imageLayoutVersion":"1.0.0"}`), 0o644)
					t := vrt.Now()
					_ = os.Chtimes(filepath.Join(d, "oci-layout"), t, t)
					_ = os.Chtimes(d, t, t)
					w.Tags("q", "")
					m := regM(w).Repo("q")
					m.Limbo["*broken"] = true
					m.Limbo["*remains"] = true
					return nil
				}})
				ops = append(ops, h.Op{Name: "remove q from disk", Do: func(w *h.World) []h.Violation {
					_ = os.RemoveAll(filepath.Join(w.Dir, "q"))
					regM(w).Repo("q").Limbo["*broken"] = true
					return nil
				}})
			}
			for pi, perm := range perms {
				perm := perm
				ops = append(ops, h.Op{Name: fmt.Sprintf("settle with visit order %d%d%d, one regular pass, then a second pass", perm[0], perm[1], perm[2]), Do: func(w *h.World) []h.Violation {
					vrt.SetKeysHook(func(site string, n int) []int {
						if site == "cache.Cache.List#1" || site == "store.mem.gc#1" {
							// the relative order of perm, restricted to the n repositories that exist
							var out []int
							for _, x := range perm {
								if x < n {
									out = append(out, x)
								}
							}
							if len(out) == n {
								return out
							}
						}
						return nil
					})
					defer vrt.SetKeysHook(nil)
					c06Settle(pol, func() {
						for _, r := range repos3 {
							if m := regM(w).Repos[r]; m != nil && !m.Limbo["*broken"] && len(m.Cas) > 0 {
								w.Tags(r, "")
							}
						}
					})
					var vs []h.Violation
					for _, r := range repos3 {
						if regM(w).Repo(r).Limbo["*broken"] {
							continue
						}
						ev := c06Exact(w, f, r, pol, items)
						for i := range ev {
							ev[i].Detail = "repository " + r + ": " + ev[i].Detail
							ev[i].Sig += ":multi-repository-pass"
						}
						vs = append(vs, ev...)
						vs = append(vs, c06Layout(w, r, pol)...)
					}
					remainsUntouched := false
					for _, n := range w.Hist {
						if strings.HasPrefix(n, "q on disk holds only oci-layout") {
							remainsUntouched = true
						} else if strings.HasSuffix(n, " to q") || strings.Contains(n, "index.json of q") || strings.HasPrefix(n, "remove q") {
							remainsUntouched = false // a later push makes it an ordinary repository again
						}
					}
					if m := regM(w).Repos["q"]; m != nil && m.Limbo["*remains"] && remainsUntouched && pol.EmptyRepo && store == "dir" {
						if ents, err := os.ReadDir(filepath.Join(w.Dir, "q")); err == nil {
							var names []string
							for _, e := range ents {
								names = append(names, e.Name())
							}
							vs = append(vs, h.V("empty-repo-removed", "remains-of-an-interrupted-removal-left", "repository q held only oci-layout (a removal interrupted after index.json) and was named by a request; after a regular pass and a second pass its directory is still there: %v", names))
						}
					}
					var healthy []string
					for _, r := range repos3 {
						if !regM(w).Repo(r).Limbo["*broken"] {
							healthy = append(healthy, r)
						}
					}
					vs = append(vs, c06Stable(w, f, healthy, items, tags, subjects)...)
					return vs
				}})
				_ = pi
			}
			depth := 4
			if tier == "thorough" {
				depth = 5
			}
			specs = append(specs, &h.SeqSpec{
				Name: fmt.Sprintf("c06-multi-%s-%s", store, pol.Name()),
				Conf: &h.Conf{Name: store, Store: store, Mod: func(c *config.Config) { pol.Apply(c) }},
				Init: func(w *h.World) {
					w.M = NewMRegFix(f)
					vrt.Advance(67*time.Second, false)
				},
				Ops:      ops,
				Model:    func(w *h.World) string { return regM(w).String() },
				NonTriv:  func(w *h.World) bool { return len(regM(w).Repos) > 0 },
				MaxDepth: depth,
			})
		}
	}
	return specs
}

func init() {
	h.RegisterSeq(&h.SeqCheck{
		ID:    "C06",
		Level: "model_checking",
		Rule: "part A: breadth-first search over all histories (bounded depth) of complete pushes (tagged / untagged images, index, referrers of tagged, untagged, dangling-blob and never-existing subjects, referrer of a referrer, dangling blob), tag and digest deletes and a 'settle' operation (clock past the grace period, one regular tick through the real gcTicker, then a second tick) for the five policy combinations whose meaning TestGarbageCollect pins x grace disabled / 1 h x tick period; " +
			"after the regular pass exactly the model's retained set is served, no index entry lacks its blob, an empty repository is removed, and the second pass changes nothing. " +
			"part B: three repositories (p, p/n, q) that are healthy, looked up but never written, corrupted, removed from disk or reduced to the remains of an interrupted removal (must be removed), collected in every one of the 6 visit orders (map-iteration seam): every healthy repository must reach the result it reaches alone; non-trivial = content present",
		Assume: []string{"exactness is demanded for (Untagged,Dangling,WithSubj) in {FFF,FFT,TFT,TTF,TTT} only, with the rules the repository's own table pins", "ticks are regular (the virtual ticker fires at every multiple of the period)"},
		Specs:  c06Specs,
		Budget: func(tier string) time.Duration {
			if tier == "thorough" {
				return 14 * time.Minute
			}
			return 110 * time.Second
		},
	})
}
