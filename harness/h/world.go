package h

import (
	"bytes"
	"context"
	"encoding/json"
	"fmt"
	"io"
	"log/slog"
	"net/http"
	"net/http/httptest"
	"net/url"
	"os"
	"path/filepath"
	"regexp"
	"sort"
	"strings"
	"sync"
	"time"

	"github.com/opencontainers/go-digest"

	"github.com/olareg/olareg"
	"github.com/olareg/olareg/config"
	"github.com/olareg/olareg/internal/verif/vos"
	"github.com/olareg/olareg/internal/verif/vrt"
	"github.com/olareg/olareg/types"
)

// Conf describes how a world (one server instance + its storage) is built.
type Conf struct {
	Name   string
	Store  string                 // "mem", "dir", "memdir" (memory over a prepared directory)
	Mod    func(c *config.Config) // adjust the configuration
	Prep   func(dir string)       // populate the directory before the server is created
	Extra  map[string]string      // free-form parameters for the check
	Step   time.Duration          // virtual time that passes after every request (0 = the clock only moves by explicit operations)
	Shadow string                 // "mem": every request is also served by a memory store instance (store equivalence)
	Nest   bool                   // the root directory is created inside an outer directory that holds sentinel files
	// DebugLog: run with a debug-level logger whose output is discarded: what olareg hands to its logger is then read
	// (formatted) at the call site, as it is in a deployment with -v debug
	DebugLog bool
}

func bp(b bool) *bool { return &b }

// World is one execution's universe.
type World struct {
	Conf     *Conf
	Dir      string
	Outer    string // with Conf.Nest: the directory around the root
	S        *olareg.Server
	Sh       *olareg.Server // shadow instance (Conf.Shadow)
	ShPanic  string
	mu       sync.Mutex // guards Dead / AutoViol when scenario threads report handler panics
	Cfg      config.Config
	Slots    map[string]string // session slot -> id (for canonical dumps)
	M        any               // reference model (check specific)
	Dead     string            // set when the instance must not be used any more (panic, deadlock)
	Trace    []string          // transcript (only when Verbose)
	Verbose  bool
	AutoViol []Violation       // violations detected by the DSL itself (handler panics)
	LastResp Resp              // the response of the last request
	Aux      map[string]string // scratch values of the check (not part of the state)
	Hist     []string          // names of the operations of the history being executed (for shape signatures)
	nreq     int
}

var scratchRoot = func() string {
	if fi, err := os.Stat("/dev/shm"); err == nil && fi.IsDir() {
		return "/dev/shm"
	}
	return os.TempDir()
}()

// BaseConfig is the configuration every world starts from: collection off, deletes on.
func BaseConfig() config.Config {
	return config.Config{
		Storage: config.ConfigStorage{
			// the ticker is off; the grace period stays at one (virtual) hour because the directory
			// store collects a repository whenever it leaves the repository cache, including at Close
			GC: config.ConfigGC{Frequency: -1, GracePeriod: time.Hour},
		},
		API: config.ConfigAPI{
			DeleteEnabled: bp(true),
			Blob:          config.ConfigAPIBlob{DeleteEnabled: bp(true)},
		},
	}
}

// NewWorld resets the runtime and builds a fresh world. The caller is thread 0.
func NewWorld(conf *Conf, rc vrt.Config) *World {
	vrt.Reset(rc)
	vos.Reset(true)
	w := &World{Conf: conf, Slots: map[string]string{}, Aux: map[string]string{}}
	if conf == nil {
		return w // a world without a server (data-structure checks)
	}
	c := BaseConfig()
	switch conf.Store {
	case "mem":
		c.Storage.StoreType = config.StoreMem
	case "dir", "memdir":
		d, err := os.MkdirTemp(scratchRoot, "verif-w-")
		if err != nil {
			panic(err)
		}
		if conf.Nest {
			w.Outer = d
			_ = os.WriteFile(filepath.Join(d, "sentinel.txt"), []byte("do not touch"), 0o644)
			_ = os.MkdirAll(filepath.Join(d, "sibling", "blobs", "sha256"), 0o755)
			// the sibling layout holds one blob ("layer-2"): a mount source outside the root would find it
			_ = os.WriteFile(filepath.Join(d, "sibling", "blobs", "sha256", "6bdb18f83935f1d97220ee8035e6ccd7e764c32102587be4488f940f943ebda6"), []byte("layer-2"), 0o644)
			_ = os.WriteFile(filepath.Join(d, "sibling", "index.json"), []byte(`{"schemaVersion":2,"manifests":[]}`), 0o644)
			_ = os.WriteFile(filepath.Join(d, "sibling", "oci-layout"), []byte(`{"imageLayoutVersion":"1.0.0"}`), 0o644)
			_ = os.WriteFile(filepath.Join(d, "index.json"), []byte(`{"schemaVersion":2,"manifests":[]}`), 0o644)
			_ = os.WriteFile(filepath.Join(d, "oci-layout"), []byte(`{"imageLayoutVersion":"1.0.0"}`), 0o644)
			_ = os.Symlink("sentinel.txt", filepath.Join(d, "link"))
			d = filepath.Join(d, "root")
			_ = os.Mkdir(d, 0o755)
		}
		w.Dir = d
		c.Storage.RootDir = d
		if conf.Store == "dir" {
			c.Storage.StoreType = config.StoreDir
		} else {
			c.Storage.StoreType = config.StoreMem
		}
	default:
		panic("unknown store " + conf.Store)
	}
	if conf.Prep != nil && w.Dir != "" {
		conf.Prep(w.Dir)
	}
	if conf.Mod != nil {
		conf.Mod(&c)
	}
	if os.Getenv("VERIF_LOG") != "" {
		c.Log = slog.New(slog.NewTextHandler(os.Stderr, &slog.HandlerOptions{Level: slog.LevelDebug, ReplaceAttr: func(_ []string, a slog.Attr) slog.Attr {
			if a.Key == slog.TimeKey {
				return slog.String("vt", time.Duration(vrt.NowNanos()-vrt.Epoch).String())
			}
			return a
		}}))
	}
	if conf.DebugLog && os.Getenv("VERIF_LOG") == "" {
		// a logger that formats every record (and so reads every argument it is handed) and throws the text away
		c.Log = slog.New(slog.NewTextHandler(io.Discard, &slog.HandlerOptions{Level: slog.LevelDebug - 8}))
	}
	w.Cfg = c
	w.S = olareg.New(c)
	if conf.Shadow == "mem" {
		sc := c
		sc.Storage.StoreType = config.StoreMem
		sc.Storage.RootDir = ""
		w.Sh = olareg.New(sc)
	}
	vrt.Quiesce()
	return w
}

// Reopen closes the server and opens a new one on the same directory (restart).
func (w *World) Reopen() error {
	err := w.CloseServer()
	w.S = olareg.New(w.Cfg)
	vrt.Quiesce()
	return err
}

// ReopenNoClose discards the server without Close (crash) and opens a new one.
func (w *World) ReopenNoClose() {
	w.S = olareg.New(w.Cfg)
	vrt.Quiesce()
}

func (w *World) CloseServer() (err error) {
	if w.S == nil {
		return nil
	}
	defer func() {
		if r := recover(); r != nil {
			if vrt.IsAbort(r) {
				panic(r)
			}
			err = fmt.Errorf("panic in Close: %v", r)
		}
	}()
	err = w.S.Close()
	vrt.Quiesce()
	w.S = nil
	return err
}

// Destroy ends the execution and removes the scratch directory.
func (w *World) Destroy() {
	func() {
		defer func() { _ = recover() }()
		vrt.Finish()
	}()
	vos.CloseAllOpen()
	if w.Outer != "" {
		_ = os.RemoveAll(w.Outer)
	} else if w.Dir != "" {
		_ = os.RemoveAll(w.Dir)
	}
}

// ---- requests -----------------------------------------------------------------------------

type Req struct {
	Method      string
	Path        string
	Query       string // raw query
	Header      map[string]string
	Body        []byte
	UnknownLen  bool
	Remote      string
	Ctx         context.Context
	HeaderMulti map[string][]string
	// Slow: the body arrives in len(Slow)+1 pieces and Slow[i] of virtual time passes (timers fire, background
	// work runs) after piece i has been read. Only for requests issued from the main thread.
	Slow []time.Duration
	// Mid, with Slow: called after the time has passed and before piece i (1-based) is handed over: another request
	// can be issued from here, in the middle of this one's body
	Mid func(piece int)
}

// slowBody is a request body during whose transfer virtual time passes.
type slowBody struct {
	data []byte
	adv  []time.Duration
	i    int
	mid  func(int)
}

func (b *slowBody) Read(p []byte) (int, error) {
	if len(b.data) == 0 {
		return 0, io.EOF
	}
	if b.i > 0 && b.i <= len(b.adv) {
		vrt.Advance(b.adv[b.i-1], false)
		if b.mid != nil {
			b.mid(b.i)
		}
	}
	left := len(b.adv) + 1 - b.i
	n := (len(b.data) + left - 1) / left
	if n > len(p) {
		n = len(p)
	}
	copy(p, b.data[:n])
	b.data = b.data[n:]
	b.i++
	return n, nil
}

func (b *slowBody) Close() error { return nil }

type Resp struct {
	Status  int
	H       http.Header
	Body    []byte
	Panic   string
	PanicAt string // innermost olareg frame of a handler panic
}

func (r Resp) String() string {
	if r.Panic != "" {
		return "PANIC " + firstLine(r.Panic)
	}
	hs := []string{}
	for _, k := range []string{"Location", "Docker-Content-Digest", "Content-Type", "Content-Length", "Content-Range", "Range", "Link", "Oci-Subject", "Oci-Filters-Applied", "Retry-After", "Warning"} {
		if v := r.H.Values(k); len(v) > 0 {
			hs = append(hs, k+"="+strings.Join(v, "|"))
		}
	}
	b := string(r.Body)
	if len(b) > 300 {
		b = b[:300] + "…"
	}
	return fmt.Sprintf("%d %s %q", r.Status, strings.Join(hs, " "), b)
}

func firstLine(s string) string {
	if i := strings.IndexByte(s, '\n'); i >= 0 {
		return s[:i]
	}
	return s
}

// Do serves one request through Server.ServeHTTP (the seam the repository's own tests use) and
// then runs the system to quiescence. A panic in the handler is recovered and recorded.
func (w *World) Do(r Req) Resp {
	resp := w.DoNoQuiesce(r)
	if vrt.Cur() <= 0 { // inside a scenario thread the system is not run to quiescence
		vrt.Quiesce()
	}
	return resp
}

// CancelCtx is a context whose Done channel the scheduler knows about.
type CancelCtx struct {
	context.Context
	done chan struct{}
	err  error
}

func NewCancelCtx() *CancelCtx {
	return &CancelCtx{Context: context.Background(), done: make(chan struct{})}
}

func (c *CancelCtx) Done() <-chan struct{} { return c.done }
func (c *CancelCtx) Err() error            { return c.err }
func (c *CancelCtx) Cancel() {
	if c.err == nil {
		c.err = context.Canceled
		vrt.MarkClosed(c.done)
		close(c.done)
	}
}

func (w *World) DoNoQuiesce(r Req) (resp Resp) {
	inThread := vrt.Cur() > 0 // scenario threads share the world: they do not touch its bookkeeping fields
	if !inThread {
		w.nreq++
	}
	u := &url.URL{Path: r.Path, RawQuery: r.Query}
	req := &http.Request{
		Method:     r.Method,
		URL:        u,
		Proto:      "HTTP/1.1",
		ProtoMajor: 1,
		ProtoMinor: 1,
		Header:     http.Header{},
		Host:       "registry.test",
		RemoteAddr: "192.0.2.1:1234",
		RequestURI: u.RequestURI(),
	}
	if r.Remote != "" {
		req.RemoteAddr = r.Remote
	}
	for k, v := range r.Header {
		req.Header.Set(k, v)
	}
	for k, vs := range r.HeaderMulti {
		for _, v := range vs {
			req.Header.Add(k, v)
		}
	}
	if r.Body != nil {
		req.Body = io.NopCloser(bytes.NewReader(r.Body))
		if len(r.Slow) > 0 {
			req.Body = &slowBody{data: append([]byte{}, r.Body...), adv: r.Slow, mid: r.Mid}
		}
		req.ContentLength = int64(len(r.Body))
		if r.UnknownLen {
			req.ContentLength = -1
		}
	} else {
		req.Body = http.NoBody
	}
	ctx := r.Ctx
	if ctx == nil {
		ctx = context.Background()
	}
	req = req.WithContext(ctx)
	rec := httptest.NewRecorder()
	func() {
		defer func() {
			if p := recover(); p != nil {
				if vrt.IsAbort(p) {
					panic(p)
				}
				resp.Panic = fmt.Sprintf("%v\n%s", p, stackOf())
				resp.PanicAt = panicSite()
				if os.Getenv("VERIF_PANICSTACK") != "" {
					fmt.Fprintf(os.Stderr, "PANIC %v\n%s\n", p, debugStack())
				}
			}
		}()
		w.S.ServeHTTP(rec, req)
	}()
	if resp.Panic == "" {
		res := rec.Result()
		resp.Status = res.StatusCode
		resp.H = res.Header
		resp.Body = rec.Body.Bytes()
	} else {
		w.mu.Lock()
		defer w.mu.Unlock()
		w.Dead = "panic: " + firstLine(resp.Panic)
		top := resp.PanicAt
		w.AutoViol = append(w.AutoViol, V("no-panic", "panic:"+top, "handler panicked on %s %s?%s: %s", r.Method, r.Path, r.Query, resp.Panic))
	}
	if w.Sh != nil && !inThread {
		func() {
			defer func() {
				if p := recover(); p != nil {
					if vrt.IsAbort(p) {
						panic(p)
					}
					w.ShPanic = fmt.Sprint(p)
				}
			}()
			req2 := req.Clone(ctx)
			if r.Body != nil {
				req2.Body = io.NopCloser(bytes.NewReader(r.Body))
			} else {
				req2.Body = http.NoBody
			}
			w.Sh.ServeHTTP(httptest.NewRecorder(), req2)
		}()
	}
	if w.Conf != nil && w.Conf.Step > 0 && vrt.Cur() <= 0 {
		vrt.Quiesce()
		vrt.Advance(w.Conf.Step, false)
	}
	if inThread && !w.Verbose {
		return resp
	}
	w.LastResp = resp
	if w.Verbose {
		q := ""
		if r.Query != "" {
			q = "?" + r.Query
		}
		w.Trace = append(w.Trace, fmt.Sprintf("%s %s%s [%d bytes] -> %s", r.Method, r.Path, q, len(r.Body), resp.String()))
	}
	return resp
}

func panicSite() string {
	fr := vrt.FrameSummary(string(debugStack()), 1)
	if len(fr) == 0 {
		return "?"
	}
	// closure suffixes (.func8) shift when handlers are added; keep the named part
	s := fr[0]
	if i := strings.Index(s, ".func"); i > 0 {
		s = s[:i]
	}
	return s
}

func stackOf() string {
	return strings.Join(vrt.FrameSummary(string(debugStack()), 6), " <- ")
}

// ---- OCI verbs ------------------------------------------------------------------------------

func (w *World) Get(path string, hdr ...string) Resp  { return w.Do(mk("GET", path, hdr)) }
func (w *World) Head(path string, hdr ...string) Resp { return w.Do(mk("HEAD", path, hdr)) }
func (w *World) Delete(path string) Resp              { return w.Do(mk("DELETE", path, nil)) }

func mk(method, pathq string, hdr []string) Req {
	p, q, _ := strings.Cut(pathq, "?")
	r := Req{Method: method, Path: p, Query: q}
	if len(hdr) > 0 {
		r.Header = map[string]string{}
		for i := 0; i+1 < len(hdr); i += 2 {
			r.Header[hdr[i]] = hdr[i+1]
		}
	}
	return r
}

// PushBlob uploads a blob monolithically (POST ?digest=).
func (w *World) PushBlob(repo string, data []byte, dig string) Resp {
	return w.Do(Req{Method: "POST", Path: "/v2/" + repo + "/blobs/uploads/", Query: "digest=" + url.QueryEscape(dig), Body: nz(data),
		Header: map[string]string{"Content-Type": "application/octet-stream"}})
}

func nz(b []byte) []byte {
	if b == nil {
		return []byte{}
	}
	return b
}

// PutManifest pushes a manifest under ref (tag or digest).
func (w *World) PutManifest(repo, ref, mediaType string, body []byte) Resp {
	hd := map[string]string{}
	if mediaType != "" {
		hd["Content-Type"] = mediaType
	}
	return w.Do(Req{Method: "PUT", Path: "/v2/" + repo + "/manifests/" + ref, Body: nz(body), Header: hd})
}

// AllAccept is an Accept header listing the four manifest media types.
var AllAccept = []string{"Accept", strings.Join([]string{types.MediaTypeOCI1Manifest, types.MediaTypeOCI1ManifestList, types.MediaTypeDocker2Manifest, types.MediaTypeDocker2ManifestList}, ", ")}

func (w *World) GetManifest(repo, ref string) Resp {
	return w.Get("/v2/"+repo+"/manifests/"+ref, AllAccept...)
}

func (w *World) HeadManifest(repo, ref string) Resp {
	return w.Head("/v2/"+repo+"/manifests/"+ref, AllAccept...)
}

// Tags returns the tag list (nil on a non-200 answer) and the raw response.
func (w *World) Tags(repo string, query string) ([]string, Resp) {
	p := "/v2/" + repo + "/tags/list"
	r := w.Do(Req{Method: "GET", Path: p, Query: query})
	if r.Status != 200 {
		return nil, r
	}
	var tl types.TagList
	if err := json.Unmarshal(r.Body, &tl); err != nil {
		return nil, r
	}
	if tl.Tags == nil {
		tl.Tags = []string{}
	}
	return tl.Tags, r
}

// Referrers follows the Link chain and returns all pages.
func (w *World) Referrers(repo, subject, artifactType string) (pages []Resp) {
	q := ""
	if artifactType != "" {
		q = "artifactType=" + url.QueryEscape(artifactType)
	}
	p := "/v2/" + repo + "/referrers/" + subject
	for i := 0; i < 50; i++ {
		r := w.Do(Req{Method: "GET", Path: p, Query: q})
		pages = append(pages, r)
		next := NextLink(r)
		if next == "" || r.Status != 200 {
			break
		}
		nu, err := url.Parse(next)
		if err != nil {
			break
		}
		p, q = nu.Path, nu.RawQuery
	}
	return pages
}

// NextLink extracts the rel=next target of a Link header.
func NextLink(r Resp) string {
	l := r.H.Get("Link")
	if l == "" {
		return ""
	}
	i := strings.Index(l, "<")
	j := strings.Index(l, ">")
	if i < 0 || j < i {
		return ""
	}
	return l[i+1 : j]
}

// ---- content fixtures -------------------------------------------------------------------------

func Dig(alg string, b []byte) string {
	return digest.Algorithm(alg).FromBytes(b).String()
}

type Desc = types.Descriptor

func BlobDesc(mt string, b []byte) Desc {
	return Desc{MediaType: mt, Digest: digest.Canonical.FromBytes(b), Size: int64(len(b))}
}

func BlobDescAlg(alg, mt string, b []byte) Desc {
	return Desc{MediaType: mt, Digest: digest.Algorithm(alg).FromBytes(b), Size: int64(len(b))}
}

// Image builds an image manifest body.
func Image(mt string, conf Desc, layers []Desc, subject *Desc, artifactType string, ann map[string]string) []byte {
	m := types.Manifest{SchemaVersion: 2, MediaType: mt, ArtifactType: artifactType, Config: conf, Layers: layers, Subject: subject, Annotations: ann}
	if m.Layers == nil {
		m.Layers = []Desc{}
	}
	b, err := json.Marshal(m)
	if err != nil {
		panic(err)
	}
	return b
}

// Index builds an index manifest body.
func Index(mt string, children []Desc, subject *Desc, artifactType string, ann map[string]string) []byte {
	m := types.Index{SchemaVersion: 2, MediaType: mt, ArtifactType: artifactType, Manifests: children, Subject: subject, Annotations: ann}
	if m.Manifests == nil {
		m.Manifests = []Desc{}
	}
	b, err := json.Marshal(m)
	if err != nil {
		panic(err)
	}
	return b
}

func ManDesc(mt string, body []byte) Desc {
	return Desc{MediaType: mt, Digest: digest.Canonical.FromBytes(body), Size: int64(len(body))}
}

// SortedKeys returns the sorted keys of a string-keyed map.
func SortedKeys[V any](m map[string]V) []string {
	ks := make([]string, 0, len(m))
	for k := range m {
		ks = append(ks, k)
	}
	sort.Strings(ks)
	return ks
}

// Canon replaces run-specific strings (scratch directory, session ids) by stable names.
func (w *World) Canon(s string) string {
	if w.Dir != "" {
		s = strings.ReplaceAll(s, w.Dir, "$ROOT")
	}
	if w.Outer != "" {
		// a root configured in another spelling (outer//root, outer/./root) does not contain w.Dir literally
		s = strings.ReplaceAll(s, w.Outer, "$OUTER")
	}
	for _, slot := range SortedKeys(w.Slots) {
		if id := w.Slots[slot]; id != "" {
			s = strings.ReplaceAll(s, id, "$"+slot)
		}
	}
	return s
}

// Fingerprint is the canonical state key: deep dump of the server, the directory tree, the
// pending virtual timers and the model.
func (w *World) Fingerprint(model string) (string, string) {
	var sb strings.Builder
	if w.S != nil {
		sb.WriteString(Dump(w.S))
	}
	sb.WriteString("\n--tree--\n")
	if w.Dir != "" {
		sb.WriteString(DumpTree(w.Dir))
	}
	sb.WriteString("\n--timers--\n")
	tis := vrt.PendingTimers()
	strs := make([]string, len(tis))
	for i, t := range tis {
		strs[i] = fmt.Sprintf("%v/%v/%v/%s", t.In, t.Period, t.Func, t.Site)
	}
	sort.Strings(strs)
	sb.WriteString(strings.Join(strs, ","))
	sb.WriteString("\n--blocked--\n")
	for _, b := range vrt.Blocked() {
		fmt.Fprintf(&sb, "%s:%s;", b.Name, b.Op)
	}
	sb.WriteString("\n--model--\n")
	sb.WriteString(model)
	if w.Dead != "" {
		sb.WriteString("\n--dead--\n" + w.Dead)
	}
	full := canonTemp(w.Canon(sb.String()))
	return HashStr(full), full
}

var _ = time.Now

var tempNameRE = regexp.MustCompile(`(upload|index\.json)\.([0-9a-f]+-)?[0-9]+`)

// canonTemp renumbers the temporary file names that are still around by order of their names (creation order).
func canonTemp(s string) string {
	names := map[string]bool{}
	for _, m := range tempNameRE.FindAllString(s, -1) {
		names[m] = true
	}
	if len(names) == 0 {
		return s
	}
	var list []string
	for n := range names {
		list = append(list, n)
	}
	sort.Slice(list, func(i, j int) bool {
		if len(list[i]) != len(list[j]) {
			return len(list[i]) < len(list[j])
		}
		return list[i] < list[j]
	})
	num := map[string]int{}
	for i, n := range list {
		num[n] = i + 1
	}
	s = tempNameRE.ReplaceAllStringFunc(s, func(n string) string {
		base := "upload"
		if strings.HasPrefix(n, "index.json") {
			base = "index.json"
		}
		return fmt.Sprintf("%s.#%d", base, num[n])
	})
	return s
}
