package checks

import (
	"encoding/json"
	"fmt"
	"strings"
	"time"

	"github.com/olareg/olareg/config"
	"github.com/olareg/olareg/internal/verif/h"
)

// C09 — a crash at any filesystem step loses nothing acknowledged and tears nothing.

func mregFromJSON(js string, f *Fix) *MReg {
	m := NewMRegFix(f)
	_ = json.Unmarshal([]byte(js), m)
	for _, r := range m.Repos {
		r.fix = f
		if r.Cas == nil {
			r.Cas = map[string]int64{}
		}
		if r.Mans == nil {
			r.Mans = map[string]int64{}
		}
		if r.ManMT == nil {
			r.ManMT = map[string]string{}
		}
		if r.Tags == nil {
			r.Tags = map[string]string{}
		}
		if r.Limbo == nil {
			r.Limbo = map[string]bool{}
		}
		if r.TagDel == nil {
			r.TagDel = map[string]bool{}
		}
		if r.Orphan == nil {
			r.Orphan = map[string]bool{}
		}
	}
	return m
}

// c09Recover is the recovery oracle.
func c09Recover(f *Fix, repo string, items, tags, subjects []string, pol GCPolicy, post ...bool) func(w *h.World, before, after, interrupted string) []h.Violation {
	inner := c09RecoverInner(f, repo, items, tags, subjects, pol)
	if len(post) == 0 || !post[0] {
		return inner
	}
	// and the store stays usable: what is acknowledged after the recovery survives an ordinary restart, also when the
	// first request after that restart goes straight to the content (nothing has loaded the index yet)
	return func(w *h.World, before, after, interrupted string) []h.Violation {
		vs := inner(w, before, after, interrupted)
		if len(vs) > 0 {
			return vs
		}
		// a client that tags what the recovered store still has sends no blobs: every manifest of the universe is pushed
		// under a new tag as it is, and one that is acknowledged is complete (a crash inside a collection leaves manifests
		// whose blobs are already gone; those pushes are refused)
		for _, n := range items {
			it := f.Items[n]
			if it == nil || !it.Manifest {
				continue
			}
			t := "post-retag-" + strings.ToLower(n)
			if r := w.PutManifest(repo, t, it.MT, it.Data); r.Status != 201 {
				continue
			}
			for _, d := range f.deps(n) {
				di := f.Items[d]
				ok := w.Head("/v2/"+repo+"/blobs/"+di.Dig).Status == 200
				if di.Manifest {
					ok = w.HeadManifest(repo, di.Dig).Status == 200
				}
				if !ok {
					vs = append(vs, h.V("tags-intact", "tag-acknowledged-after-recovery-points-at-incomplete-image", "after a crash inside %q and the recovery, PUT of %s under tag %s (no blobs sent) was acknowledged, but %s which it references is not served", interrupted, n, t, d))
				}
			}
		}
		if len(vs) > 0 {
			return vs
		}
		// a complete tagged image (the policy of this check collects unreferenced blobs at once, also at Close)
		for _, b := range []string{"c", "l1"} {
			if r := w.PushBlob(repo, f.Items[b].Data, f.Items[b].Dig); r.Status != 201 {
				return vs // refusing is not this clause's business
			}
		}
		if r := w.PutManifest(repo, "post-recovery", mtImg, f.Items["I1"].Data); r.Status != 201 {
			return vs
		}
		_ = w.Reopen()
		if r := w.Head("/v2/" + repo + "/blobs/" + f.Items["l1"].Dig); r.Status != 200 {
			vs = append(vs, h.V("acknowledged-survives-restart", "acknowledged-after-recovery-lost-by-restart", "after a crash inside %q and the recovery, the push of a tagged image was acknowledged; after an ordinary restart HEAD of its layer (the first request) answers %s", interrupted, r))
		} else if g := w.GetManifest(repo, "post-recovery"); g.Status != 200 {
			vs = append(vs, h.V("acknowledged-survives-restart", "acknowledged-after-recovery-lost-by-restart", "after a crash inside %q and the recovery, the push of a tagged image was acknowledged; after an ordinary restart GET of the tag answers %s", interrupted, g))
		}
		return vs
	}
}

func c09RecoverInner(f *Fix, repo string, items, tags, subjects []string, pol GCPolicy) func(w *h.World, before, after, interrupted string) []h.Violation {
	return func(w *h.World, before, after, interrupted string) []h.Violation {
		var vs []h.Violation
		// every repository loads
		tl, r := w.Tags(repo, "")
		if r.Status >= 500 || r.Panic != "" {
			vs = append(vs, h.V("repository-loads", "repository-does-not-load-after-crash", "tags/list after the crash answers %s", r))
			return vs
		}
		// every blob file's content matches its name
		for _, v := range storedBlobsHashCheck(w) {
			v.Rule, v.Sig = "blob-files-intact", "torn-blob-file"
			vs = append(vs, v)
		}
		// every tag resolves to an intact manifest with everything it references
		for _, t := range tl {
			g := w.GetManifest(repo, t)
			if g.Status != 200 || !digestMatches(g.H.Get("Docker-Content-Digest"), g.Body) {
				vs = append(vs, h.V("tags-intact", "tag-points-at-missing-or-torn-manifest", "tag %s after the crash: %s", t, g))
				continue
			}
			it := f.ByDigest(g.H.Get("Docker-Content-Digest"))
			if it == nil {
				continue
			}
			for _, d := range f.deps(it.Name) {
				di := f.Items[d]
				ok := w.Head("/v2/"+repo+"/blobs/"+di.Dig).Status == 200
				if di.Manifest {
					ok = w.HeadManifest(repo, di.Dig).Status == 200
				}
				if !ok {
					vs = append(vs, h.V("tags-intact", "tag-points-at-incomplete-image", "tag %s -> %s, but %s which it references is not served after the crash", t, it.Name, d))
				}
			}
		}
		// acknowledged operations are in effect; the interrupted one is absent or present as a whole
		diff := func(js string) []h.Violation {
			m := mregFromJSON(js, f).Repo(repo)
			return DiffModel(w, f, m, DiffOpts{Repo: repo, Items: items, Tags: tags, Subjects: subjects})
		}
		db := diff(before)
		if len(db) == 0 {
			return vs
		}
		da := diff(after)
		if len(da) == 0 {
			return vs
		}
		pick := db
		which := "the state before the interrupted request"
		if len(da) < len(db) {
			pick, which = da, "the state after the interrupted request"
		}
		sig := "neither-before-nor-after:" + opClass(interrupted)
		if opClass(interrupted) == "artifact-push" {
			// shape: is the pushed artifact itself the only thing the differences are about (served but not yet listed as a
			// referrer, the known two-index-writes finding), or is other, earlier acknowledged content affected?
			if fl := strings.Fields(interrupted); len(fl) > 1 && f.Items[fl[1]] != nil {
				it := f.Items[fl[1]]
				only := true
				for _, v := range append(append([]h.Violation{}, db...), da...) {
					if !strings.Contains(v.Detail, it.Name+" ") && !strings.Contains(v.Detail, it.Dig) {
						only = false
					}
				}
				if only {
					sig += ":only-the-pushed-artifact"
				} else {
					sig += ":other-content-affected"
				}
			}
		}
		detail := fmt.Sprintf("after a crash inside %q the readable state is neither the one before nor the one after the request; closest is %s, differences:", interrupted, which)
		for i, v := range pick {
			if i >= 4 {
				break
			}
			detail += "\n  - " + v.Detail
		}
		vs = append(vs, h.V("absent-or-whole", sig, "%s", detail))
		return vs
	}
}

func opClass(name string) string {
	switch {
	case len(name) >= 9 && name[:9] == "push blob":
		return "blob-upload"
	case len(name) >= 6 && name[:6] == "push A":
		return "artifact-push"
	case len(name) >= 5 && name[:5] == "push ":
		return "manifest-push"
	case len(name) >= 10 && name[:10] == "delete tag":
		return "tag-delete"
	case len(name) >= 8 && name[:8] == "delete A":
		return "artifact-delete"
	case len(name) >= 7 && name[:7] == "delete ":
		return "digest-delete"
	case len(name) >= 10 && name[:10] == "collection":
		return "collection"
	}
	return "other"
}

func c09Specs(tier string) []*h.CrashSpec {
	f := StdFix()
	const repo = "r"
	pol := GCPolicy{Untagged: true, Dangling: true, WithSubj: true, EmptyRepo: true, Grace: -1, Freq: 15 * time.Minute}
	items := []string{"c", "l1", "l2", "e", "I1", "I2", "A1", "A2"}
	tags := []string{"t", "u"}
	subjects := []string{f.Items["I1"].Dig}
	var ops []h.Op
	for _, b := range []string{"c", "l1", "l2", "e"} {
		ops = append(ops, opPushBlob("C09", repo, f, b))
	}
	ops = append(ops, opPushMan("C09", repo, f, "I1", "t"), opPushMan("C09", repo, f, "I2", "t"), opPushMan("C09", repo, f, "I1", "u"), opPushMan("C09", repo, f, "A1", ""), opPushMan("C09", repo, f, "A2", ""))
	ops = append(ops, opDeleteTag("C09", repo, "t"), opDeleteMan("C09", repo, f, "I1"), opDeleteMan("C09", repo, f, "A1"))
	ops = append(ops, h.Op{Name: "collection tick", Do: func(w *h.World) []h.Violation {
		if gcTick(w) {
			regM(w).Repo(repo).Collected(f, pol)
		}
		return nil
	}})
	maxLen := 3
	if tier == "thorough" {
		maxLen = 4
	}
	var hists [][]int
	var gen func(cur []int)
	gen = func(cur []int) {
		if len(cur) > 0 {
			hists = append(hists, append([]int{}, cur...))
		}
		if len(cur) == maxLen {
			return
		}
		for k := range ops {
			gen(append(cur, k))
		}
	}
	gen(nil)
	// fixed longer scripts
	idx := func(name string) int {
		for i, o := range ops {
			if o.Name == name {
				return i
			}
		}
		panic("no op " + name)
	}
	n := func(names ...string) []int {
		var out []int
		for _, x := range names {
			out = append(out, idx(x))
		}
		return out
	}
	pb := func(b string) string { return fmt.Sprintf("push blob %s to %s", b, repo) }
	scripts := [][]int{
		n(pb("c"), pb("l1"), "push I1 as r:t", pb("e"), "push A1 by digest to r", "delete A1 by digest from r", "collection tick"),
		n(pb("c"), pb("l1"), pb("l2"), "push I1 as r:t", "push I2 as r:t", "collection tick", "delete tag r:t", "collection tick"),
		n(pb("c"), pb("l1"), "push I1 as r:t", "push I1 as r:u", "delete I1 by digest from r", "collection tick"),
	}
	type start struct {
		name string
		init func(w *h.World)
	}
	put := func(w *h.World, names ...string) {
		m := regM(w).Repo(repo)
		for _, nme := range names {
			it := f.Items[nme]
			if it.Manifest {
				mustStatus(w.PutManifest(repo, it.Dig, it.MT, it.Data), 201)
				m.PushManifest(it, "")
			} else {
				mustStatus(w.PushBlob(repo, it.Data, it.Dig), 201)
				m.PushBlob(nme)
			}
		}
	}
	starts := []start{
		{"new-repository", func(w *h.World) {}},
		{"blobs-present", func(w *h.World) { put(w, "c", "l1", "l2", "e") }},
		{"image-tagged", func(w *h.World) {
			put(w, "c", "l1", "l2", "e", "I2")
			mustStatus(w.PutManifest(repo, "t", mtImg, f.Items["I1"].Data), 201)
			regM(w).Repo(repo).PushManifest(f.Items["I1"], "t")
		}},
		{"with-referrer", func(w *h.World) {
			put(w, "c", "l1", "l2", "e")
			mustStatus(w.PutManifest(repo, "t", mtImg, f.Items["I1"].Data), 201)
			regM(w).Repo(repo).PushManifest(f.Items["I1"], "t")
			put(w, "A1")
		}},
	}
	var specs []*h.CrashSpec
	for _, st := range starts {
		st := st
		hs := hists
		if st.name == "new-repository" {
			hs = append(append([][]int{}, hists...), scripts...)
		}
		specs = append(specs, &h.CrashSpec{
			Name: "c09-" + st.name,
			Conf: &h.Conf{Name: "dir", Store: "dir", Mod: func(c *config.Config) { pol.Apply(c) }},
			Init: func(w *h.World) {
				w.M = NewMRegFix(f)
				st.init(w)
			},
			Ops:       ops,
			Histories: hs,
			ModelJSON: func(w *h.World) string { return regM(w).String() },
			Recover:   c09Recover(f, repo, items, tags, subjects, pol, st.name == "new-repository" || tier == "thorough"),
			Faults:    true,
		})
	}
	// an index and its children: pushing the index moves the children's entries out of index.json, deleting it by
	// digest has to bring them back - several index writes inside one request
	{
		itemsX := []string{"c", "l1", "l2", "I1", "I2", "X"}
		tagsX := []string{"t", "x"}
		opsX := []h.Op{opPushMan("C09", repo, f, "X", ""), opPushMan("C09", repo, f, "X", "x"), opDeleteMan("C09", repo, f, "X"), opDeleteMan("C09", repo, f, "I1"),
			opDeleteTag("C09", repo, "x"), opPushMan("C09", repo, f, "I1", "t"),
			{Name: "collection tick", Do: func(w *h.World) []h.Violation {
				if gcTick(w) {
					regM(w).Repo(repo).Collected(f, pol)
				}
				return nil
			}}}
		var hx [][]int
		var genX func(cur []int)
		genX = func(cur []int) {
			if len(cur) > 0 {
				hx = append(hx, append([]int{}, cur...))
			}
			if len(cur) == maxLen {
				return
			}
			for k := range opsX {
				genX(append(cur, k))
			}
		}
		genX(nil)
		for _, withIndex := range []bool{false, true} {
			withIndex := withIndex
			name := "c09-index-children-pushed"
			if withIndex {
				name = "c09-index-pushed"
			}
			specs = append(specs, &h.CrashSpec{
				Name: name,
				Conf: &h.Conf{Name: "dir", Store: "dir", Mod: func(c *config.Config) { pol.Apply(c) }},
				Init: func(w *h.World) {
					w.M = NewMRegFix(f)
					put(w, "c", "l1", "l2", "I1", "I2")
					if withIndex {
						put(w, "X")
					}
				},
				Ops:       opsX,
				Histories: hx,
				ModelJSON: func(w *h.World) string { return regM(w).String() },
				Recover:   c09Recover(f, repo, itemsX, tagsX, nil, pol),
				Faults:    true,
			})
		}
	}
	return specs
}

func init() {
	h.RegisterCrash(&h.CrashCheck{
		ID: "C09",
		Rule: "for every history of length <= 3 (quick) / <= 4 (thorough, within the time budget) over 13 single-request operations (blob uploads, first push, tag move, second tag, two artifact pushes for one subject, tag / digest / artifact delete, collection tick) from four start states, plus three longer scripts, plus the same lengths over 7 operations on an index and its children (push by digest / tag, delete of the index, of a child, of the tag, tick) from two start states: every mutating filesystem call of the directory store (mkdir, create-temp, write, write-file, rename, remove) is a crash point and every write is torn after 0, n/2 and n-1 bytes; " +
			"additionally every mutating call inside the last request of a history returns an I/O error (EIO) instead: the request runs to its end, the process is killed at the request boundary; " +
			"after each crash the server is discarded without Close, a new one is opened on the directory, and the oracle checks that the repository loads, every blob file hashes to its name, every tag resolves to a complete image, and the readable state equals the model before or after the interrupted request; non-trivial = distinct recovered directory trees",
		Assume: []string{"process-crash model: everything issued before the crash point is on disk, nothing after it (loss of un-synced pages is outside the property)", "left-over temporary files under _uploads/ and index.json.* are not violations", "collection policy: untagged and dangling referrers collected, no grace period, so that ticks remove content"},
		Specs:  c09Specs,
		Budget: func(tier string) time.Duration {
			if tier == "thorough" {
				return 14 * time.Minute
			}
			return 110 * time.Second
		},
	})
}
