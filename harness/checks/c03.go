// Package checks holds the per-property alphabets, scenarios and oracles.
package checks

import (
	"encoding/json"
	"fmt"
	"net/url"
	"sort"
	"strings"
	"time"

	"github.com/olareg/olareg/internal/verif/vrt"

	"github.com/olareg/olareg/internal/verif/h"
	"github.com/olareg/olareg/types"
)

// C03 — tags form a last-writer-wins map; listing and paging are exact.

type c03Model struct {
	Tags map[string]string // tag -> digest
	Man  map[string]bool   // digests present
}

type c03Fix struct {
	conf, layer []byte
	man         [2][]byte
	dig         [2]string
	// an index whose child descriptors carry org.opencontainers.image.ref.name annotations, as an exported layout
	// has them: content of a manifest body, never a tag of this repository
	idx    []byte
	idxDig string
	// the same children listed by an ordinary index (descriptors without annotations)
	idx0    []byte
	idx0Dig string
}

func c03Fixture() *c03Fix {
	f := &c03Fix{conf: []byte("{}"), layer: []byte("layer-1")}
	cd := h.BlobDesc(types.MediaTypeOCI1ImageConfig, f.conf)
	ld := h.BlobDesc(types.MediaTypeOCI1Layer, f.layer)
	f.man[0] = h.Image(types.MediaTypeOCI1Manifest, cd, []h.Desc{ld}, nil, "", nil)
	f.man[1] = h.Image(types.MediaTypeOCI1Manifest, cd, []h.Desc{ld}, nil, "", map[string]string{"v": "2"})
	for i := range f.man {
		f.dig[i] = h.Dig("sha256", f.man[i])
	}
	d1 := h.ManDesc(types.MediaTypeOCI1Manifest, f.man[0])
	d1.Annotations = map[string]string{types.AnnotRefName: "a"}
	d2 := h.ManDesc(types.MediaTypeOCI1Manifest, f.man[1])
	d2.Annotations = map[string]string{types.AnnotRefName: "ghost"}
	f.idx = h.Index(types.MediaTypeOCI1ManifestList, []h.Desc{d1, d2}, nil, "", nil)
	f.idxDig = h.Dig("sha256", f.idx)
	f.idx0 = h.Index(types.MediaTypeOCI1ManifestList, []h.Desc{h.ManDesc(types.MediaTypeOCI1Manifest, f.man[0]), h.ManDesc(types.MediaTypeOCI1Manifest, f.man[1])}, nil, "", nil)
	f.idx0Dig = h.Dig("sha256", f.idx0)
	return f
}

func c03Specs(tier string) []*h.SeqSpec {
	fx := c03Fixture()
	tags := []string{"a", "b", "B1"}
	if tier == "thorough" {
		tags = []string{"a", "b", "B1", "a.b-1"}
	}
	const repo = "r"
	var specs []*h.SeqSpec
	for _, store := range []string{"mem", "dir"} {
		store := store
		mdl := func(w *h.World) *c03Model { return w.M.(*c03Model) }
		var ops []h.Op
		for i := 0; i < 2; i++ {
			i := i
			for _, t := range tags {
				t := t
				ops = append(ops, h.Op{Name: fmt.Sprintf("put M%d tag %s", i+1, t), Do: func(w *h.World) []h.Violation {
					r := w.PutManifest(repo, t, types.MediaTypeOCI1Manifest, fx.man[i])
					if r.Status != 201 {
						return []h.Violation{h.V("push-acknowledged", "valid-push-refused", "valid tag push answered %s", r)}
					}
					m := mdl(w)
					m.Tags[t] = fx.dig[i]
					m.Man[fx.dig[i]] = true
					return nil
				}})
			}
		}
		for i := 0; i < 2; i++ {
			i := i
			ops = append(ops, h.Op{Name: fmt.Sprintf("put M%d by digest", i+1), Do: func(w *h.World) []h.Violation {
				r := w.PutManifest(repo, fx.dig[i], types.MediaTypeOCI1Manifest, fx.man[i])
				if r.Status != 201 {
					return []h.Violation{h.V("push-acknowledged", "valid-push-refused", "valid digest push answered %s", r)}
				}
				mdl(w).Man[fx.dig[i]] = true
				return nil
			}})
		}
		for _, t := range tags {
			t := t
			ops = append(ops, h.Op{Name: "delete tag " + t, Do: func(w *h.World) []h.Violation {
				m := mdl(w)
				r := w.Delete("/v2/" + repo + "/manifests/" + t)
				_, had := m.Tags[t]
				if had && r.Status != 202 {
					return []h.Violation{h.V("tag-delete", "tag-delete-refused", "delete of existing tag %s answered %s", t, r)}
				}
				delete(m.Tags, t)
				return nil
			}})
		}
		for i := 0; i < 2; i++ {
			i := i
			ops = append(ops, h.Op{Name: fmt.Sprintf("delete M%d by digest", i+1), Do: func(w *h.World) []h.Violation {
				m := mdl(w)
				r := w.Delete("/v2/" + repo + "/manifests/" + fx.dig[i])
				had := m.Man[fx.dig[i]]
				if had && r.Status != 202 {
					return []h.Violation{h.V("digest-delete", "digest-delete-refused", "delete of present manifest M%d answered %s", i+1, r)}
				}
				delete(m.Man, fx.dig[i])
				for t, d := range m.Tags {
					if d == fx.dig[i] {
						delete(m.Tags, t)
					}
				}
				return nil
			}})
		}
		sp := &h.SeqSpec{
			Name: "c03-" + store,
			Conf: &h.Conf{Name: store, Store: store},
			Init: func(w *h.World) {
				w.M = &c03Model{Tags: map[string]string{}, Man: map[string]bool{}}
				mustStatus(w.PushBlob(repo, fx.conf, h.Dig("sha256", fx.conf)), 201)
				mustStatus(w.PushBlob(repo, fx.layer, h.Dig("sha256", fx.layer)), 201)
			},
			Ops: ops,
			Model: func(w *h.World) string {
				m := mdl(w)
				b, _ := json.Marshal(m)
				return string(b)
			},
			Probe: func(w *h.World) []h.Violation {
				return c03Probe(w, repo, fx, tags)
			},
			NonTriv:  func(w *h.World) bool { return len(mdl(w).Man) > 0 },
			MaxDepth: 40,
		}
		if tier != "thorough" {
			sp.MaxDepth = 30
		}
		specs = append(specs, sp)
		// the same universe plus an index whose child descriptors carry ref.name annotations (bounded depth)
		opsX := append([]h.Op{}, ops...)
		opsX = append(opsX, h.Op{Name: "put index X (children annotated with ref.name a / ghost) by digest", Do: func(w *h.World) []h.Violation {
			if r := w.PutManifest(repo, fx.idxDig, types.MediaTypeOCI1ManifestList, fx.idx); r.Status == 201 {
				mdl(w).Man[fx.idxDig] = true
			}
			return nil
		}})
		opsX = append(opsX, h.Op{Name: "delete index X by digest", Do: func(w *h.World) []h.Violation {
			m := mdl(w)
			r := w.Delete("/v2/" + repo + "/manifests/" + fx.idxDig)
			if m.Man[fx.idxDig] && r.Status != 202 {
				return []h.Violation{h.V("digest-delete", "digest-delete-refused", "delete of the present index X answered %s", r)}
			}
			delete(m.Man, fx.idxDig)
			return nil
		}})
		opsX = append(opsX, h.Op{Name: "put index X0 (the same children, plain descriptors) by digest", Do: func(w *h.World) []h.Violation {
			if r := w.PutManifest(repo, fx.idx0Dig, types.MediaTypeOCI1ManifestList, fx.idx0); r.Status == 201 {
				mdl(w).Man[fx.idx0Dig] = true
			}
			return nil
		}})
		opsX = append(opsX, h.Op{Name: "delete index X0 by digest", Do: func(w *h.World) []h.Violation {
			m := mdl(w)
			r := w.Delete("/v2/" + repo + "/manifests/" + fx.idx0Dig)
			if m.Man[fx.idx0Dig] && r.Status != 202 {
				return []h.Violation{h.V("digest-delete", "digest-delete-refused", "delete of the present index X0 answered %s", r)}
			}
			delete(m.Man, fx.idx0Dig)
			return nil
		}})
		spX := *sp
		spX.Name = "c03-" + store + "-annotated-index"
		spX.Ops = opsX
		spX.MaxDepth = 5
		if tier == "thorough" {
			spX.MaxDepth = 6
		}
		specs = append(specs, &spX)
		if store == "dir" {
			// the same universe with the events that make the directory store read index.json again: a restart and the
			// expiry of the repository cache entry. Virtual time enters the state, so the depth is bounded.
			sp2 := *sp
			sp2.Name = "c03-dir-reload"
			sp2.Ops = append(append([]h.Op{}, ops...),
				h.Op{Name: "restart", Do: func(w *h.World) []h.Violation { return closeViolation(w.Reopen()) }},
				h.Op{Name: "advance 3h (cache expiry)", Do: func(w *h.World) []h.Violation {
					vrt.Advance(3*time.Hour, false)
					return nil
				}})
			sp2.MaxDepth = 4
			if tier == "thorough" {
				sp2.MaxDepth = 5
			}
			specs = append(specs, &sp2)
		}
	}
	return specs
}

func mustStatus(r h.Resp, want int) {
	if r.Status != want {
		panic(fmt.Sprintf("fixture request failed: want %d got %s", want, r))
	}
}

func c03Probe(w *h.World, repo string, fx *c03Fix, tags []string) []h.Violation {
	m := w.M.(*c03Model)
	var vs []h.Violation
	add := func(rule, sig, f string, a ...any) { vs = append(vs, h.V(rule, sig, f, a...)) }
	// resolution by tag
	for _, t := range tags {
		r := w.GetManifest(repo, t)
		if d, ok := m.Tags[t]; ok {
			i := 0
			if d == fx.dig[1] {
				i = 1
			}
			if r.Status != 200 || r.H.Get("Docker-Content-Digest") != d || string(r.Body) != string(fx.man[i]) {
				add("tag-resolves-to-last-push", "tag-resolution-wrong", "tag %s should resolve to %s, got %s", t, d, r)
			}
		} else if r.Status != 404 {
			add("deleted-tag-gone", "absent-tag-resolves", "tag %s is not in the model but GET answered %s", t, r)
		}
	}
	// by digest
	for i := 0; i < 2; i++ {
		r := w.GetManifest(repo, fx.dig[i])
		if m.Man[fx.dig[i]] {
			if r.Status != 200 || string(r.Body) != string(fx.man[i]) {
				add("manifest-stays-by-digest", "manifest-lost", "manifest M%d should be addressable by digest, got %s", i+1, r)
			}
		} else if r.Status != 404 && !m.Man[fx.idxDig] && !m.Man[fx.idx0Dig] {
			// (while the index X that lists it is present the answer is left open, see DESIGN 8.3 item 14)
			add("digest-delete-removes", "deleted-manifest-served", "manifest M%d was deleted but GET answered %s", i+1, r)
		}
	}
	// listing
	want := h.SortedKeys(m.Tags)
	got, r := w.Tags(repo, "")
	if got == nil || !eqStrings(got, want) {
		add("listing-exact", "tag-list-wrong", "tags/list should be %v, got %v (%s)", want, got, r)
	}
	if w.Dead != "" {
		return vs
	}
	// n / last matrix
	ns := []string{"-1", "0", "1", "2", "3", "100", "x", "9223372036854775808"}
	lasts := append([]string{"\x00none", "", "0", "zz"}, tags...)
	for _, n := range ns {
		for _, last := range lasts {
			q := url.Values{}
			q.Set("n", n)
			if last != "\x00none" {
				q.Set("last", last)
			}
			got, r := w.Tags(repo, q.Encode())
			if r.Panic != "" {
				// reported by the DSL as a panic violation; the instance is dead
				return append(vs, w.AutoViol...)
			}
			lastV := ""
			if last != "\x00none" {
				lastV = last
			}
			var after []string
			for _, t := range want {
				if strings.Compare(t, lastV) > 0 {
					after = append(after, t)
				}
			}
			if got == nil {
				add("listing-never-errors", fmt.Sprintf("tag-list-error:n=%s", nclass(n)), "tags/list?%s answered %s", q.Encode(), r)
				continue
			}
			// always: a valid listing (subset of the current tags after last, in order, no duplicates)
			if !isOrderedSubset(got, after) {
				add("listing-valid", fmt.Sprintf("tag-list-invalid:n=%s", nclass(n)), "tags/list?%s = %v is not an ordered subset of %v", q.Encode(), got, after)
				continue
			}
			// positive n: exactly the first n
			if ni := atoiOK(n); ni > 0 {
				exp := after
				if len(exp) > ni {
					exp = exp[:ni]
				}
				if !eqStrings(got, exp) {
					add("paging-exact", "tag-page-wrong", "tags/list?%s should be %v, got %v", q.Encode(), exp, got)
				}
				if (len(after) > ni) != (h.NextLink(r) != "") {
					add("paging-exact", "tag-page-link-wrong", "tags/list?%s: %d tags remain after this page but Link=%q", q.Encode(), len(after)-len(exp), r.H.Get("Link"))
				}
			}
		}
	}
	// walking the pages visits every tag exactly once
	for _, n := range []int{1, 2, 3, 100} {
		var seen []string
		q := fmt.Sprintf("n=%d", n)
		p := "/v2/" + repo + "/tags/list"
		for step := 0; step < 20; step++ {
			r := w.Do(h.Req{Method: "GET", Path: p, Query: q})
			var tl types.TagList
			if r.Status != 200 || json.Unmarshal(r.Body, &tl) != nil {
				add("paging-walk", "tag-walk-error", "page request %s?%s answered %s", p, q, r)
				break
			}
			seen = append(seen, tl.Tags...)
			next := h.NextLink(r)
			if next == "" {
				break
			}
			u, err := url.Parse(next)
			if err != nil {
				add("paging-walk", "tag-walk-bad-link", "unparsable Link %q", next)
				break
			}
			p, q = u.Path, u.RawQuery
		}
		if !eqStrings(seen, want) {
			add("paging-walk", "tag-walk-wrong", "walking tags with n=%d visited %v, want %v", n, seen, want)
		}
	}
	return vs
}

func nclass(n string) string {
	switch {
	case n == "0":
		return "0"
	case strings.HasPrefix(n, "-"):
		return "negative"
	case atoiOK(n) > 0:
		return "positive"
	}
	return "other"
}

func atoiOK(s string) int {
	n := 0
	if s == "" {
		return -1
	}
	for _, c := range s {
		if c < '0' || c > '9' {
			return -1
		}
		n = n*10 + int(c-'0')
		if n > 1<<30 {
			return -1
		}
	}
	return n
}

func eqStrings(a, b []string) bool {
	if len(a) != len(b) {
		return false
	}
	for i := range a {
		if a[i] != b[i] {
			return false
		}
	}
	return true
}

func isOrderedSubset(got, all []string) bool {
	if !sort.StringsAreSorted(got) {
		return false
	}
	j := 0
	for _, g := range got {
		for j < len(all) && all[j] != g {
			j++
		}
		if j == len(all) {
			return false
		}
		j++
	}
	return true
}

func init() {
	h.RegisterSeq(&h.SeqCheck{
		ID:    "C03",
		Level: "model_checking",
		Rule: "breadth-first search over all histories of tag pushes (2 manifests x tags), pushes by digest, tag deletes and digest deletes on the real handler (memory and directory store), " +
			"to closure of the canonical state set; in every distinct state the tag map, the listing and the full n x last matrix are compared with a map model; non-trivial = state holding at least one manifest",
		Assume: []string{"tag universe {a,b,B1} (quick) / {a,b,B1,a.b-1} (thorough); two manifests", "responses observed through Server.ServeHTTP with an httptest recorder"},
		Specs:  c03Specs,
		Budget: func(tier string) time.Duration {
			if tier == "thorough" {
				return 10 * time.Minute
			}
			return 100 * time.Second
		},
	})
}
