package checks

import (
	"fmt"
	"time"

	"github.com/olareg/olareg/config"
	"github.com/olareg/olareg/internal/verif/h"
	"github.com/olareg/olareg/internal/verif/vrt"
)

// Nested repository names: in the directory store the directory of repository "team" is also the parent of
// repository "team/app". Whatever happens to one (emptied and pruned, touched without content, a cancelled
// upload, collection through the ticker, the cache timer or Close) must leave the other's acknowledged content
// readable. The family is shared by C02 (read back) and C05 (collection never removes retained content).
func nestedSpecs(tier string) []*h.SeqSpec {
	f := StdFix()
	repos := []string{"team", "team/app"}
	pols := []GCPolicy{
		{Untagged: false, Dangling: false, WithSubj: true, EmptyRepo: true, Grace: time.Hour, Freq: 15 * time.Minute}, // the defaults
		{Untagged: true, Dangling: true, WithSubj: true, EmptyRepo: true, Grace: -1, Freq: 15 * time.Minute},
	}
	if tier == "thorough" {
		pols = append(pols,
			GCPolicy{Untagged: false, Dangling: false, WithSubj: true, EmptyRepo: true, Grace: -1, Freq: 15 * time.Minute},
			GCPolicy{Untagged: true, Dangling: true, WithSubj: true, EmptyRepo: false, Grace: time.Hour, Freq: 15 * time.Minute},
		)
	}
	var specs []*h.SeqSpec
	for _, store := range []string{"mem", "dir"} {
		for _, pol := range pols {
			store, pol := store, pol
			var ops []h.Op
			for _, repo := range repos {
				repo := repo
				ops = append(ops, h.Op{Name: "push I1 completely to " + repo + " as t1", Do: func(w *h.World) []h.Violation { return gcPushMacro(w, f, repo, "I1", "t1") }})
				ops = append(ops, h.Op{Name: "list the tags of " + repo, Do: func(w *h.World) []h.Violation {
					w.Tags(repo, "")
					return nil
				}})
				ops = append(ops, h.Op{Name: "start an upload in " + repo + " and cancel it", Do: func(w *h.World) []h.Violation {
					r := w.Do(h.Req{Method: "POST", Path: "/v2/" + repo + "/blobs/uploads/"})
					if loc := r.H.Get("Location"); r.Status == 202 && loc != "" {
						w.Delete(loc)
					}
					return nil
				}})
				ops = append(ops, h.Op{Name: "delete tag t1 in " + repo, Do: func(w *h.World) []h.Violation {
					w.Delete("/v2/" + repo + "/manifests/t1")
					regM(w).Repo(repo).DeleteTag("t1")
					return nil
				}})
				ops = append(ops, h.Op{Name: "delete I1 by digest in " + repo, Do: func(w *h.World) []h.Violation {
					w.Delete("/v2/" + repo + "/manifests/" + f.Items["I1"].Dig)
					regM(w).Repo(repo).DeleteManifest("I1")
					return nil
				}})
			}
			ops = append(ops, h.Op{Name: "push I2 completely to team/app", Do: func(w *h.World) []h.Violation { return gcPushMacro(w, f, "team/app", "I2", "") }})
			collected := func(w *h.World) {
				for _, repo := range repos {
					regM(w).Repo(repo).Collected(f, pol)
				}
			}
			if pol.Grace > 0 {
				ops = append(ops, h.Op{Name: "advance 1.2 x grace", Do: func(w *h.World) []h.Violation {
					vrt.Advance(pol.Grace+pol.Grace/5+29*time.Second, false)
					collected(w)
					return nil
				}})
			}
			ops = append(ops, h.Op{Name: "collection tick", Do: func(w *h.World) []h.Violation {
				if gcTick(w) {
					collected(w)
				}
				return nil
			}})
			if store == "dir" {
				ops = append(ops, h.Op{Name: "restart", Do: func(w *h.World) []h.Violation {
					if vs := closeViolation(w.Reopen()); vs != nil {
						return vs
					}
					collected(w)
					return nil
				}})
			}
			depth := 4
			if tier == "thorough" {
				depth = 5
			}
			specs = append(specs, &h.SeqSpec{
				Name: fmt.Sprintf("nested-%s-%s", store, pol.Name()),
				Conf: &h.Conf{Name: store + "-nested", Store: store, Mod: func(c *config.Config) { pol.Apply(c) }},
				Init: func(w *h.World) {
					w.M = NewMRegFix(f)
					vrt.Advance(67*time.Second, false)
				},
				Ops:   ops,
				Model: func(w *h.World) string { return regM(w).String() },
				Probe: func(w *h.World) []h.Violation {
					var vs []h.Violation
					for _, repo := range repos {
						for _, v := range CheckRetained(w, f, regM(w).Repo(repo), repo, pol) {
							v.Sig = "nested-repositories:" + v.Sig
							v.Detail = "repository " + repo + ": " + v.Detail
							vs = append(vs, v)
						}
					}
					return vs
				},
				NonTriv:  func(w *h.World) bool { return len(regM(w).Repo("team/app").Mans)+len(regM(w).Repo("team").Mans) > 0 },
				MaxDepth: depth,
			})
		}
	}
	return specs
}
