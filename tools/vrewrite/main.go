// vrewrite produces the instrumented build of olareg without touching /repo.
//
// It type-checks selected packages of the repository working tree, rewrites their
// non-test sources (import paths of sync/time/os/crypto-rand replaced by shadow packages,
// `go` statements, channel operations, select statements, close() and map ranges routed
// through the vrt runtime), writes the rewritten copies to an output directory and emits
// an overlay.json for `go build -overlay` that also maps the virtual packages
// (runtime, shims, harness, cmd/verifcheck) into the module namespace.
//
// Std-lib only. A construct it cannot model is an error (exit 2), never a verdict.
package main

import (
	"bytes"
	"encoding/json"
	"flag"
	"fmt"
	"go/ast"
	"go/build"
	"go/format"
	"go/importer"
	"go/parser"
	"go/token"
	"go/types"
	"os"
	"path/filepath"
	"sort"
	"strconv"
	"strings"
)

const modPath = "github.com/olareg/olareg"
const verifPrefix = modPath + "/internal/verif/"

type pkgSpec struct {
	dir     string            // relative to repo root
	shadows map[string]string // std import path -> shadow package (relative name under internal/verif)
}

var pkgs = []pkgSpec{
	{".", map[string]string{"sync": "vsync", "time": "vtime"}},
	{"internal/cache", map[string]string{"sync": "vsync", "time": "vtime"}},
	{"internal/store", map[string]string{"sync": "vsync", "time": "vtime", "os": "vos", "crypto/rand": "vrand"}},
	{"cmd/olareg", map[string]string{"sync": "vsync", "time": "vtime"}},
}

// virtual packages: directory under /verif -> import path suffix under the module
type virt struct{ src, imp string }

var fatal = func(format string, a ...any) {
	fmt.Fprintf(os.Stderr, "vrewrite: "+format+"\n", a...)
	os.Exit(2)
}

func main() {
	repo := flag.String("repo", "/repo", "repository working tree")
	verif := flag.String("verif", "/verif", "verification tree")
	out := flag.String("out", "/verif/build", "output directory")
	flag.Parse()
	abs := func(p string) string {
		a, err := filepath.Abs(p)
		if err != nil {
			fatal("%v", err)
		}
		return a
	}
	*repo, *verif, *out = abs(*repo), abs(*verif), abs(*out)
	must(os.Chdir(*repo)) // the source importer resolves module imports relative to the working directory
	ovDir := filepath.Join(*out, "ov")
	genDir := filepath.Join(*out, "gen")
	_ = os.RemoveAll(ovDir)
	_ = os.RemoveAll(genDir)
	must(os.MkdirAll(ovDir, 0o755))
	must(os.MkdirAll(genDir, 0o755))

	fset := token.NewFileSet()
	imp := importer.ForCompiler(fset, "source", nil)
	overlay := map[string]string{}

	// 1. shadow package alias files
	for _, sh := range []struct{ std, name string }{{"sync", "vsync"}, {"time", "vtime"}, {"os", "vos"}, {"crypto/rand", "vrand"}} {
		src := genAliases(imp, sh.std, sh.name, filepath.Join(*verif, "rt", sh.name))
		dst := filepath.Join(genDir, sh.name, "zz_alias.go")
		must(os.MkdirAll(filepath.Dir(dst), 0o755))
		must(os.WriteFile(dst, src, 0o644))
		overlay[filepath.Join(*repo, "internal/verif", sh.name, "zz_alias.go")] = dst
	}

	// 2. virtual packages (all .go files under rt/, harness/, cmd/)
	mapDir := func(srcRoot, dstRoot string) {
		_ = filepath.Walk(srcRoot, func(p string, fi os.FileInfo, err error) error {
			if err != nil || fi.IsDir() || !strings.HasSuffix(p, ".go") {
				return nil
			}
			rel, _ := filepath.Rel(srcRoot, p)
			overlay[filepath.Join(dstRoot, rel)] = p
			return nil
		})
	}
	mapDir(filepath.Join(*verif, "rt"), filepath.Join(*repo, "internal/verif"))
	mapDir(filepath.Join(*verif, "harness"), filepath.Join(*repo, "internal/verif"))
	mapDir(filepath.Join(*verif, "cmd/verifcheck"), filepath.Join(*repo, "cmd/verifcheck"))
	// files injected into existing packages
	if ents, err := os.ReadDir(filepath.Join(*verif, "inject")); err == nil {
		for _, e := range ents {
			// name: <pkgdir with / replaced by __>--<file>.go
			parts := strings.SplitN(e.Name(), "--", 2)
			if len(parts) != 2 {
				continue
			}
			dir := strings.ReplaceAll(parts[0], "__", "/")
			if dir == "root" {
				dir = "."
			}
			overlay[filepath.Join(*repo, dir, parts[1])] = filepath.Join(*verif, "inject", e.Name())
		}
	}

	// 3. rewrite the repository packages
	for _, ps := range pkgs {
		dir := filepath.Join(*repo, ps.dir)
		ctx := build.Default
		ctx.BuildTags = append(ctx.BuildTags, "verif")
		bp, err := ctx.ImportDir(dir, 0)
		if err != nil {
			fatal("import %s: %v", dir, err)
		}
		var files []*ast.File
		var names []string
		for _, fn := range bp.GoFiles {
			full := filepath.Join(dir, fn)
			f, err := parser.ParseFile(fset, full, nil, parser.ParseComments)
			if err != nil {
				fatal("parse: %v", err)
			}
			files = append(files, f)
			names = append(names, full)
		}
		info := &types.Info{
			Types: map[ast.Expr]types.TypeAndValue{},
			Uses:  map[*ast.Ident]types.Object{},
			Defs:  map[*ast.Ident]types.Object{},
		}
		var terrs []error
		conf := types.Config{Importer: imp, Error: func(err error) { terrs = append(terrs, err) }}
		pkgPath := modPath
		if ps.dir != "." {
			pkgPath = modPath + "/" + ps.dir
		}
		_, _ = conf.Check(pkgPath, fset, files, info)
		if len(terrs) > 0 {
			for i, e := range terrs {
				if i < 10 {
					fmt.Fprintln(os.Stderr, "vrewrite: type error:", e)
				}
			}
			fatal("package %s does not type-check (%d errors)", ps.dir, len(terrs))
		}
		for i, f := range files {
			r := &rw{fset: fset, info: info, file: f, pkg: bp.Name, shadows: ps.shadows, fileName: filepath.Base(names[i])}
			r.rewriteFile()
			stripComments(f)
			if len(r.errs) > 0 {
				for _, e := range r.errs {
					fmt.Fprintln(os.Stderr, "vrewrite: unsupported construct:", e)
				}
				os.Exit(2)
			}
			var buf bytes.Buffer
			if err := format.Node(&buf, fset, f); err != nil {
				fatal("print %s: %v", names[i], err)
			}
			dst := filepath.Join(ovDir, ps.dir, filepath.Base(names[i]))
			must(os.MkdirAll(filepath.Dir(dst), 0o755))
			must(os.WriteFile(dst, buf.Bytes(), 0o644))
			overlay[names[i]] = dst
		}
	}

	ov := struct{ Replace map[string]string }{overlay}
	b, _ := json.MarshalIndent(ov, "", " ")
	must(os.WriteFile(filepath.Join(*out, "overlay.json"), b, 0o644))
}

// stripComments drops every comment after the package clause (the rewritten tree mixes nodes
// with and without positions, and a floating line comment could swallow code); build
// constraints before the package clause are kept.
func stripComments(f *ast.File) {
	var keep []*ast.CommentGroup
	for _, cg := range f.Comments {
		if cg.End() < f.Package {
			keep = append(keep, cg)
		}
	}
	f.Comments = keep
	f.Doc = nil
	ast.Inspect(f, func(n ast.Node) bool {
		switch n := n.(type) {
		case *ast.FuncDecl:
			n.Doc = nil
		case *ast.GenDecl:
			n.Doc = nil
		case *ast.Field:
			n.Doc, n.Comment = nil, nil
		case *ast.TypeSpec:
			n.Doc, n.Comment = nil, nil
		case *ast.ValueSpec:
			n.Doc, n.Comment = nil, nil
		case *ast.ImportSpec:
			n.Doc, n.Comment = nil, nil
		}
		return true
	})
}

func must(err error) {
	if err != nil {
		fatal("%v", err)
	}
}

// genAliases emits a file re-exporting every exported name of the std package that the
// hand-written part of the shadow package does not define itself.
func genAliases(imp types.Importer, std, name, handDir string) []byte {
	p, err := imp.Import(std)
	if err != nil {
		fatal("import %s: %v", std, err)
	}
	have := map[string]bool{}
	fs := token.NewFileSet()
	ents, _ := os.ReadDir(handDir)
	for _, e := range ents {
		if !strings.HasSuffix(e.Name(), ".go") || strings.HasPrefix(e.Name(), "zz_") {
			continue
		}
		f, err := parser.ParseFile(fs, filepath.Join(handDir, e.Name()), nil, 0)
		if err != nil {
			fatal("parse shadow %v", err)
		}
		for _, d := range f.Decls {
			switch d := d.(type) {
			case *ast.FuncDecl:
				if d.Recv == nil {
					have[d.Name.Name] = true
				}
			case *ast.GenDecl:
				for _, s := range d.Specs {
					switch s := s.(type) {
					case *ast.TypeSpec:
						have[s.Name.Name] = true
					case *ast.ValueSpec:
						for _, n := range s.Names {
							have[n.Name] = true
						}
					}
				}
			}
		}
	}
	var b bytes.Buffer
	fmt.Fprintf(&b, "// Code generated by vrewrite. DO NOT EDIT.\n\npackage %s\n\nimport std %q\n\n", name, std)
	names := p.Scope().Names()
	sort.Strings(names)
	used := false
	for _, n := range names {
		if !ast.IsExported(n) || have[n] {
			continue
		}
		switch o := p.Scope().Lookup(n).(type) {
		case *types.TypeName:
			if named, ok := o.Type().(*types.Named); ok && named.TypeParams().Len() > 0 {
				continue
			}
			fmt.Fprintf(&b, "type %s = std.%s\n", n, n)
			used = true
		case *types.Const:
			fmt.Fprintf(&b, "const %s = std.%s\n", n, n)
			used = true
		case *types.Var:
			fmt.Fprintf(&b, "var %s = std.%s\n", n, n)
			used = true
		case *types.Func:
			if sig, ok := o.Type().(*types.Signature); ok && sig.TypeParams().Len() > 0 {
				continue // generic: must be hand written if needed
			}
			fmt.Fprintf(&b, "var %s = std.%s\n", n, n)
			used = true
		}
	}
	if !used {
		fmt.Fprintf(&b, "var _ = std.%s\n", firstExported(p))
	}
	return b.Bytes()
}

func firstExported(p *types.Package) string {
	for _, n := range p.Scope().Names() {
		if ast.IsExported(n) {
			if _, ok := p.Scope().Lookup(n).(*types.Func); ok {
				return n
			}
		}
	}
	return ""
}

// ---------------------------------------------------------------------------------------

type rw struct {
	fset     *token.FileSet
	info     *types.Info
	file     *ast.File
	pkg      string
	fileName string
	shadows  map[string]string
	errs     []string
	needVrt  bool
	keepOlareg bool
	fn       string // current function name
	siteN    int
	tmpN     int
}

func (r *rw) errf(n ast.Node, format string, a ...any) {
	r.errs = append(r.errs, fmt.Sprintf("%s: %s", r.fset.Position(n.Pos()), fmt.Sprintf(format, a...)))
}

func (r *rw) tmp(prefix string) string {
	r.tmpN++
	return fmt.Sprintf("vrt%s%d", prefix, r.tmpN)
}

func (r *rw) rewriteFile() {
	// imports
	for _, is := range r.file.Imports {
		p, _ := strconv.Unquote(is.Path.Value)
		if sh, ok := r.shadows[p]; ok {
			local := filepath.Base(p)
			if is.Name != nil {
				local = is.Name.Name
			}
			if local == "_" || local == "." {
				continue
			}
			is.Path.Value = strconv.Quote(verifPrefix + sh)
			is.Name = ast.NewIdent(local)
		}
	}
	for _, d := range r.file.Decls {
		switch d := d.(type) {
		case *ast.FuncDecl:
			if d.Body == nil {
				continue
			}
			r.fn = d.Name.Name
			if d.Recv != nil && len(d.Recv.List) == 1 {
				r.fn = recvName(d.Recv.List[0].Type) + "." + d.Name.Name
			}
			r.siteN = 0
			d.Body.List = r.stmts(d.Body.List)
		case *ast.GenDecl:
			r.fn = "init"
			for _, s := range d.Specs {
				if vs, ok := s.(*ast.ValueSpec); ok {
					for i := range vs.Values {
						vs.Values[i] = r.expr(vs.Values[i], nil)
					}
				}
			}
		}
	}
	if r.needVrt {
		addImport(r.file, "vrt", verifPrefix+"vrt")
	}
	if r.keepOlareg {
		// the import of the root package stays in use
		r.file.Decls = append(r.file.Decls, &ast.GenDecl{Tok: token.VAR, Specs: []ast.Spec{&ast.ValueSpec{
			Names: []*ast.Ident{ast.NewIdent("_")}, Values: []ast.Expr{&ast.SelectorExpr{X: ast.NewIdent("olareg"), Sel: ast.NewIdent("New")}}}}})
	}
}

func recvName(e ast.Expr) string {
	switch e := e.(type) {
	case *ast.StarExpr:
		return recvName(e.X)
	case *ast.Ident:
		return e.Name
	case *ast.IndexExpr:
		return recvName(e.X)
	case *ast.IndexListExpr:
		return recvName(e.X)
	}
	return "?"
}

func addImport(f *ast.File, name, path string) {
	spec := &ast.ImportSpec{Name: ast.NewIdent(name), Path: &ast.BasicLit{Kind: token.STRING, Value: strconv.Quote(path)}}
	for _, d := range f.Decls {
		if gd, ok := d.(*ast.GenDecl); ok && gd.Tok == token.IMPORT {
			gd.Specs = append(gd.Specs, spec)
			if !gd.Lparen.IsValid() {
				gd.Lparen = gd.Pos()
				gd.Rparen = gd.End()
			}
			f.Imports = append(f.Imports, spec)
			return
		}
	}
	gd := &ast.GenDecl{Tok: token.IMPORT, Specs: []ast.Spec{spec}}
	f.Decls = append([]ast.Decl{gd}, f.Decls...)
	f.Imports = append(f.Imports, spec)
}

func (r *rw) vrtCall(fn string, args ...ast.Expr) *ast.CallExpr {
	r.needVrt = true
	return &ast.CallExpr{Fun: &ast.SelectorExpr{X: ast.NewIdent("vrt"), Sel: ast.NewIdent(fn)}, Args: args}
}

func (r *rw) stmts(list []ast.Stmt) []ast.Stmt {
	var out []ast.Stmt
	for _, s := range list {
		out = append(out, r.stmt(s)...)
	}
	return out
}

// hooks collects channel receives found in the expressions of one simple statement.
type hooks struct{ recv []ast.Expr }

func (r *rw) single(s ast.Stmt) ast.Stmt {
	if s == nil {
		return nil
	}
	l := r.stmt(s)
	if len(l) == 1 {
		return l[0]
	}
	return &ast.BlockStmt{List: l}
}

// header rewrites a simple statement / expression in a control-flow header where hooks cannot be inserted.
func (r *rw) headerStmt(s ast.Stmt) ast.Stmt {
	if s == nil {
		return nil
	}
	l := r.stmt(s)
	if len(l) != 1 {
		r.errf(s, "channel operation in a statement header")
		return s
	}
	return l[0]
}

func (r *rw) headerExpr(e ast.Expr) ast.Expr {
	if e == nil {
		return nil
	}
	h := &hooks{}
	e = r.expr(e, h)
	if len(h.recv) > 0 {
		r.errf(e, "channel receive in a statement header")
	}
	return e
}

func (r *rw) stmt(s ast.Stmt) []ast.Stmt {
	switch s := s.(type) {
	case nil:
		return nil
	case *ast.BlockStmt:
		s.List = r.stmts(s.List)
		return []ast.Stmt{s}
	case *ast.IfStmt:
		s.Init = r.headerStmt(s.Init)
		s.Cond = r.headerExpr(s.Cond)
		s.Body.List = r.stmts(s.Body.List)
		if s.Else != nil {
			s.Else = r.single(s.Else)
		}
		return []ast.Stmt{s}
	case *ast.ForStmt:
		s.Init = r.headerStmt(s.Init)
		s.Cond = r.headerExpr(s.Cond)
		s.Post = r.headerStmt(s.Post)
		s.Body.List = r.stmts(s.Body.List)
		return []ast.Stmt{s}
	case *ast.RangeStmt:
		s.X = r.headerExpr(s.X)
		s.Body.List = r.stmts(s.Body.List)
		if t := r.info.TypeOf(s.X); t != nil {
			switch t.Underlying().(type) {
			case *types.Map:
				return []ast.Stmt{r.mapRange(s)}
			case *types.Chan:
				r.errf(s, "range over channel is not modelled")
			}
		}
		return []ast.Stmt{s}
	case *ast.SwitchStmt:
		s.Init = r.headerStmt(s.Init)
		s.Tag = r.headerExpr(s.Tag)
		for _, c := range s.Body.List {
			cc := c.(*ast.CaseClause)
			for i := range cc.List {
				cc.List[i] = r.headerExpr(cc.List[i])
			}
			cc.Body = r.stmts(cc.Body)
		}
		return []ast.Stmt{s}
	case *ast.TypeSwitchStmt:
		s.Init = r.headerStmt(s.Init)
		s.Assign = r.headerStmt(s.Assign)
		for _, c := range s.Body.List {
			cc := c.(*ast.CaseClause)
			cc.Body = r.stmts(cc.Body)
		}
		return []ast.Stmt{s}
	case *ast.SelectStmt:
		return []ast.Stmt{r.selectStmt(s)}
	case *ast.LabeledStmt:
		if _, ok := s.Stmt.(*ast.SelectStmt); ok {
			r.errf(s, "labelled select is not modelled")
			return []ast.Stmt{s}
		}
		l := r.stmt(s.Stmt)
		if len(l) != 1 {
			r.errf(s, "labelled statement with channel operation is not modelled")
			return []ast.Stmt{s}
		}
		s.Stmt = l[0]
		return []ast.Stmt{s}
	case *ast.GoStmt:
		return []ast.Stmt{r.goStmt(s)}
	case *ast.DeferStmt:
		h := &hooks{}
		s.Call = r.expr(s.Call, h).(*ast.CallExpr)
		return r.withHooks(h, s)
	case *ast.SendStmt:
		h := &hooks{}
		s.Chan = r.expr(s.Chan, h)
		s.Value = r.expr(s.Value, h)
		out := r.withHooks(h, nil)
		out = append(out, &ast.ExprStmt{X: r.vrtCall("BeforeSend", cloneExpr(s.Chan))}, s)
		return out
	case *ast.ExprStmt:
		h := &hooks{}
		s.X = r.expr(s.X, h)
		return r.withHooks(h, s)
	case *ast.AssignStmt:
		h := &hooks{}
		for i := range s.Rhs {
			s.Rhs[i] = r.expr(s.Rhs[i], h)
		}
		for i := range s.Lhs {
			s.Lhs[i] = r.expr(s.Lhs[i], h)
		}
		return r.withHooks(h, s)
	case *ast.ReturnStmt:
		h := &hooks{}
		for i := range s.Results {
			s.Results[i] = r.expr(s.Results[i], h)
		}
		return r.withHooks(h, s)
	case *ast.IncDecStmt:
		h := &hooks{}
		s.X = r.expr(s.X, h)
		return r.withHooks(h, s)
	case *ast.DeclStmt:
		h := &hooks{}
		if gd, ok := s.Decl.(*ast.GenDecl); ok {
			for _, sp := range gd.Specs {
				if vs, ok := sp.(*ast.ValueSpec); ok {
					for i := range vs.Values {
						vs.Values[i] = r.expr(vs.Values[i], h)
					}
				}
			}
		}
		return r.withHooks(h, s)
	default:
		return []ast.Stmt{s}
	}
}

func (r *rw) withHooks(h *hooks, s ast.Stmt) []ast.Stmt {
	var out []ast.Stmt
	for _, ch := range h.recv {
		out = append(out, &ast.ExprStmt{X: r.vrtCall("BeforeRecv", cloneExpr(ch))})
	}
	if s != nil {
		out = append(out, s)
	}
	return out
}

// expr rewrites inside an expression: function literal bodies, close() calls; collects receives into h.
func (r *rw) expr(e ast.Expr, h *hooks) ast.Expr {
	if e == nil {
		return nil
	}
	var visit func(n ast.Expr) ast.Expr
	visit = func(n ast.Expr) ast.Expr {
		switch n := n.(type) {
		case nil:
			return nil
		case *ast.FuncLit:
			saveN := r.fn
			n.Body.List = r.stmts(n.Body.List)
			r.fn = saveN
			return n
		case *ast.UnaryExpr:
			n.X = visit(n.X)
			if n.Op == token.ARROW {
				if h == nil {
					r.errf(n, "channel receive in a package-level initialiser")
				} else {
					h.recv = append(h.recv, n.X)
				}
			}
			return n
		case *ast.CallExpr:
			n.Fun = visit(n.Fun)
			for i := range n.Args {
				n.Args[i] = visit(n.Args[i])
			}
			// cmd/olareg: the server built by the real flag parsing is handed to the in-process harness
			if r.pkg == "main" {
				if se, ok := n.Fun.(*ast.SelectorExpr); ok && se.Sel.Name == "New" {
					if x, ok := se.X.(*ast.Ident); ok && x.Name == "olareg" {
						n.Fun = ast.NewIdent("verifNew")
						r.keepOlareg = true
						return n
					}
				}
				// s.Run(ctx) in serve.go: the harness gets a hook just before the server starts to listen
				if se, ok := n.Fun.(*ast.SelectorExpr); ok && se.Sel.Name == "Run" && len(n.Args) == 1 {
					if t := r.info.TypeOf(se.X); t != nil && strings.HasSuffix(t.String(), "olareg.Server") {
						n.Args = append([]ast.Expr{se.X}, n.Args...)
						n.Fun = ast.NewIdent("verifRun")
						return n
					}
				}
			}
			if id, ok := n.Fun.(*ast.Ident); ok && id.Name == "close" && len(n.Args) == 1 {
				if _, isB := r.info.Uses[id].(*types.Builtin); isB {
					return r.vrtCall("CloseChan", n.Args[0])
				}
			}
			return n
		case *ast.ParenExpr:
			n.X = visit(n.X)
			return n
		case *ast.SelectorExpr:
			n.X = visit(n.X)
			return n
		case *ast.IndexExpr:
			n.X = visit(n.X)
			n.Index = visit(n.Index)
			return n
		case *ast.IndexListExpr:
			n.X = visit(n.X)
			return n
		case *ast.SliceExpr:
			n.X = visit(n.X)
			n.Low, n.High, n.Max = visit(n.Low), visit(n.High), visit(n.Max)
			return n
		case *ast.StarExpr:
			n.X = visit(n.X)
			return n
		case *ast.TypeAssertExpr:
			n.X = visit(n.X)
			return n
		case *ast.BinaryExpr:
			n.X = visit(n.X)
			n.Y = visit(n.Y)
			return n
		case *ast.KeyValueExpr:
			n.Key = visit(n.Key)
			n.Value = visit(n.Value)
			return n
		case *ast.CompositeLit:
			for i := range n.Elts {
				n.Elts[i] = visit(n.Elts[i])
			}
			return n
		default:
			return n
		}
	}
	return visit(e)
}

func cloneExpr(e ast.Expr) ast.Expr {
	// re-parse the printed expression: cheap and always a deep copy
	var b bytes.Buffer
	if err := format.Node(&b, token.NewFileSet(), e); err != nil {
		fatal("clone: %v", err)
	}
	ne, err := parser.ParseExpr(b.String())
	if err != nil {
		fatal("clone parse %q: %v", b.String(), err)
	}
	return stripPos(ne)
}

func stripPos(e ast.Expr) ast.Expr {
	ast.Inspect(e, func(n ast.Node) bool {
		switch n := n.(type) {
		case *ast.Ident:
			n.NamePos = token.NoPos
		case *ast.BasicLit:
			n.ValuePos = token.NoPos
		case *ast.CallExpr:
			n.Lparen, n.Rparen = token.NoPos, token.NoPos
		case *ast.ParenExpr:
			n.Lparen, n.Rparen = token.NoPos, token.NoPos
		case *ast.UnaryExpr:
			n.OpPos = token.NoPos
		case *ast.StarExpr:
			n.Star = token.NoPos
		case *ast.IndexExpr:
			n.Lbrack, n.Rbrack = token.NoPos, token.NoPos
		case *ast.CompositeLit:
			n.Lbrace, n.Rbrace = token.NoPos, token.NoPos
		case *ast.FuncLit:
			n.Type.Func = token.NoPos
		case *ast.BinaryExpr:
			n.OpPos = token.NoPos
		}
		return true
	})
	return e
}

func isSimple(e ast.Expr) bool {
	switch e := e.(type) {
	case *ast.Ident:
		return true
	case *ast.SelectorExpr:
		return isSimple(e.X)
	case *ast.StarExpr:
		return isSimple(e.X)
	case *ast.ParenExpr:
		return isSimple(e.X)
	}
	return false
}

func (r *rw) site() ast.Expr {
	r.siteN++
	return &ast.BasicLit{Kind: token.STRING, Value: strconv.Quote(fmt.Sprintf("%s.%s#%d", r.pkg, r.fn, r.siteN))}
}

// mapRange: for k, v := range m {B}  =>  for _, k := range vrt.Keys(m, site) { v, ok := m[k]; if !ok {continue}; B }
func (r *rw) mapRange(s *ast.RangeStmt) ast.Stmt {
	if !isSimple(s.X) {
		r.errf(s, "range over a map expression with side effects is not modelled")
		return s
	}
	isBlank := func(e ast.Expr) bool {
		if e == nil {
			return true
		}
		id, ok := e.(*ast.Ident)
		return ok && id.Name == "_"
	}
	keyExpr := s.Key
	var pre []ast.Stmt
	var loopKey ast.Expr
	if s.Tok == token.DEFINE || isBlank(s.Key) {
		if isBlank(s.Key) {
			loopKey = ast.NewIdent(r.tmp("K"))
		} else {
			loopKey = s.Key
		}
		keyExpr = loopKey
	} else {
		// assignment form: for k = range m
		loopKey = ast.NewIdent(r.tmp("K"))
		pre = append(pre, &ast.AssignStmt{Lhs: []ast.Expr{s.Key}, Tok: token.ASSIGN, Rhs: []ast.Expr{cloneExpr(loopKey)}})
		keyExpr = loopKey
	}
	ok := ast.NewIdent(r.tmp("OK"))
	idx := &ast.IndexExpr{X: cloneExpr(s.X), Index: cloneExpr(keyExpr)}
	if isBlank(s.Value) {
		pre = append(pre, &ast.AssignStmt{Lhs: []ast.Expr{ast.NewIdent("_"), ok}, Tok: token.DEFINE, Rhs: []ast.Expr{idx}})
	} else if s.Tok == token.DEFINE {
		pre = append(pre, &ast.AssignStmt{Lhs: []ast.Expr{s.Value, ok}, Tok: token.DEFINE, Rhs: []ast.Expr{idx}})
	} else {
		pre = append(pre,
			&ast.DeclStmt{Decl: &ast.GenDecl{Tok: token.VAR, Specs: []ast.Spec{&ast.ValueSpec{Names: []*ast.Ident{ok}, Type: ast.NewIdent("bool")}}}},
			&ast.AssignStmt{Lhs: []ast.Expr{s.Value, cloneExpr(ok)}, Tok: token.ASSIGN, Rhs: []ast.Expr{idx}})
	}
	pre = append(pre, &ast.IfStmt{
		Cond: &ast.UnaryExpr{Op: token.NOT, X: cloneExpr(ok)},
		Body: &ast.BlockStmt{List: []ast.Stmt{&ast.BranchStmt{Tok: token.CONTINUE}}},
	})
	body := append(pre, s.Body.List...)
	return &ast.RangeStmt{
		Key:   ast.NewIdent("_"),
		Value: loopKey,
		Tok:   token.DEFINE,
		X:     r.vrtCall("Keys", s.X, r.site()),
		Body:  &ast.BlockStmt{List: body},
	}
}

// goStmt: go f(a, b) => { vf := f; va := a; vb := b; vrt.Go(site, func(){ vf(va, vb) }) }
func (r *rw) goStmt(s *ast.GoStmt) ast.Stmt {
	h := &hooks{}
	call := r.expr(s.Call, h).(*ast.CallExpr)
	if len(h.recv) > 0 {
		r.errf(s, "channel receive in go statement arguments")
	}
	site := r.site()
	if fl, ok := call.Fun.(*ast.FuncLit); ok && len(call.Args) == 0 {
		return &ast.ExprStmt{X: r.vrtCall("Go", site, fl)}
	}
	var pre []ast.Stmt
	var fun ast.Expr
	if id, ok := call.Fun.(*ast.Ident); ok {
		if _, isB := r.info.Uses[id].(*types.Builtin); isB {
			r.errf(s, "go with a builtin is not modelled")
		}
	}
	if _, ok := call.Fun.(*ast.FuncLit); ok {
		fun = call.Fun
	} else {
		fn := ast.NewIdent(r.tmp("F"))
		pre = append(pre, &ast.AssignStmt{Lhs: []ast.Expr{fn}, Tok: token.DEFINE, Rhs: []ast.Expr{call.Fun}})
		fun = cloneExpr(fn)
	}
	args := make([]ast.Expr, len(call.Args))
	for i, a := range call.Args {
		if _, lit := a.(*ast.BasicLit); lit {
			args[i] = a
			continue
		}
		v := ast.NewIdent(r.tmp("A"))
		pre = append(pre, &ast.AssignStmt{Lhs: []ast.Expr{v}, Tok: token.DEFINE, Rhs: []ast.Expr{a}})
		args[i] = cloneExpr(v)
	}
	inner := &ast.CallExpr{Fun: fun, Args: args, Ellipsis: call.Ellipsis}
	if call.Ellipsis.IsValid() {
		inner.Ellipsis = 1
	}
	lit := &ast.FuncLit{Type: &ast.FuncType{Params: &ast.FieldList{}}, Body: &ast.BlockStmt{List: []ast.Stmt{&ast.ExprStmt{X: inner}}}}
	pre = append(pre, &ast.ExprStmt{X: r.vrtCall("Go", site, lit)})
	if len(pre) == 1 {
		return pre[0]
	}
	return &ast.BlockStmt{List: pre}
}

// selectStmt: see DESIGN.md §2.2 (Pick scheme).
func (r *rw) selectStmt(s *ast.SelectStmt) ast.Stmt {
	var pre []ast.Stmt
	hasDefault := false
	var chans []ast.Expr
	sel := ast.NewIdent(r.tmp("Sel"))
	idx := 0
	for _, c := range s.Body.List {
		cc := c.(*ast.CommClause)
		cc.Body = r.stmts(cc.Body)
		if cc.Comm == nil {
			hasDefault = true
			continue
		}
		var recv *ast.UnaryExpr
		switch cm := cc.Comm.(type) {
		case *ast.ExprStmt:
			recv, _ = unparen(cm.X).(*ast.UnaryExpr)
		case *ast.AssignStmt:
			if len(cm.Rhs) == 1 {
				recv, _ = unparen(cm.Rhs[0]).(*ast.UnaryExpr)
			}
		case *ast.SendStmt:
			r.errf(cm, "send case in select is not modelled")
			continue
		}
		if recv == nil || recv.Op != token.ARROW {
			r.errf(cc, "unrecognised select case")
			continue
		}
		h := &hooks{}
		chExpr := r.expr(recv.X, h)
		if len(h.recv) > 0 {
			r.errf(cc, "nested receive in select case")
		}
		tmp := ast.NewIdent(r.tmp("C"))
		pre = append(pre, &ast.AssignStmt{Lhs: []ast.Expr{tmp}, Tok: token.DEFINE, Rhs: []ast.Expr{chExpr}})
		chans = append(chans, cloneExpr(tmp))
		recv.X = r.vrtCall("Pick", cloneExpr(sel), &ast.BasicLit{Kind: token.INT, Value: strconv.Itoa(idx)}, cloneExpr(tmp))
		idx++
	}
	def := "false"
	if hasDefault {
		def = "true"
	}
	args := append([]ast.Expr{ast.NewIdent(def)}, chans...)
	pre = append(pre, &ast.AssignStmt{Lhs: []ast.Expr{sel}, Tok: token.DEFINE, Rhs: []ast.Expr{r.vrtCall("SelectChoose", args...)}})
	pre = append(pre, s)
	return &ast.BlockStmt{List: pre}
}

func unparen(e ast.Expr) ast.Expr {
	for {
		p, ok := e.(*ast.ParenExpr)
		if !ok {
			return e
		}
		e = p.X
	}
}
