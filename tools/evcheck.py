#!/usr/bin/env python3
# tools/evcheck.py: every committed evidence file must report zero new violations and no infrastructure errors.
import json, glob, sys
bad = 0
for f in sorted(glob.glob('/verif/evidence/C*.json')):
    d = json.load(open(f))
    v = d.get('violations', 0)
    infra = d['coverage'].get('infrastructure_errors') or []
    caps = d['coverage'].get('caps_hit') or []
    flag = 'OK ' if v == 0 and not infra else 'BAD'
    if flag == 'BAD':
        bad += 1
    print(f"{flag} {d['property_id']} tier={d['tier']} violations={v} infra={len(infra)} exhaustive={d['coverage']['exhaustive']} caps={len(caps)} known={sum((d['coverage'].get('known_finding_hits') or {}).values())} states={d['coverage']['states']} wall={d['wall_s']:.0f}s")
sys.exit(1 if bad else 0)
