package h

import (
	"encoding/json"
	"fmt"
	"os"
	"sort"
	"strings"
	"time"

	"github.com/olareg/olareg/internal/verif/vrt"
)

// SCHED: stateless depth-first search over the interleavings of a small concurrent scenario
// executed on the real implementation under the cooperative scheduler, with iterative
// preemption bounding and a happens-before prefix cache (DESIGN.md section 2.4).

type Step struct {
	Name string
	Do   func(w *World) string // returns the canonical result of the step
}

type Scenario struct {
	Name    string
	Conf    *Conf
	RC      vrt.Config
	Prefix  func(w *World)
	Threads [][]Step
	// PendingTick: a collection tick is delivered before the concurrent phase starts (the real gcTicker
	// goroutine then races with the threads); in the sequential reference it is one more step.
	PendingTick bool
	// Due: virtual time to let pass (without running anything) before the concurrent phase, so that cache timers are due
	Due   time.Duration
	Final func(w *World) string
	// Linearizable: the outcome (step results + final transcript) must equal the outcome of a sequential
	// interleaving of the steps that respects the observed real-time order.
	Linearizable bool
	Extra        func(w *World, res [][]string, final string) []Violation
	Bound        int
	NoHB         bool
	// IgnoreDeadlock: executions that end in a dead-lock are counted but not reported (the scenario belongs to a
	// property that does not speak about hangs; the hang itself is decided by C12)
	IgnoreDeadlock bool
	// MaxSeconds: a lower time budget for this scenario than the check's (0 = the check's budget)
	MaxSeconds float64
}

type SchedCheck struct {
	ID        string
	Level     string
	Rule      string
	Assume    []string
	Scenarios func(tier string) []*Scenario
	Budget    func(tier string) time.Duration
	Race      bool // C13: run under the race detector binary and collect its reports
}

var SchedChecks = map[string]*SchedCheck{}

func RegisterSched(c *SchedCheck) {
	SchedChecks[c.ID] = c
	id := c.ID
	if _, ok := Checks[id]; !ok {
		Checks[id] = func(tier string) int { return RunSched(id, tier) }
	}
	Replayers[id] = func(tier string, v Violation) int { return ReplaySched(id, tier, v) }
}

type interval struct{ s, e int }

type execResult struct {
	points   []vrt.PointRec
	res      [][]string
	iv       [][]interval
	final    string
	viol     []Violation
	deadlock bool
	abort    string
	diverged string
	panics   []string
	trace    []string
}

// runSchedule executes the scenario once under the given choice prefix.
func (sc *Scenario) runSchedule(prefix, prefixN []uint8, hb bool, prune func(uint64, int, int) bool, verbose bool) (x execResult) {
	w := NewWorld(sc.Conf, sc.RC)
	w.Verbose = verbose
	defer func() {
		if p := recover(); p != nil {
			if !vrt.IsAbort(p) {
				panic(p)
			}
			x.abort = fmt.Sprint(p)
			sig, detail := AbortSignature()
			x.viol = append(x.viol, V("every-request-completes", "hang:"+sig, "execution aborted (%v): %s", p, detail))
			x.points = vrt.Points()
		}
		x.trace = w.Trace
		w.Destroy()
	}()
	if sc.Prefix != nil {
		sc.Prefix(w)
	}
	vrt.Quiesce()
	if sc.Due > 0 {
		vrt.Advance(sc.Due, true)
	}
	if sc.PendingTick {
		if d := vrt.NextPeriodic(); d >= 0 {
			vrt.Advance(d, true)
		}
	}
	n := len(sc.Threads)
	x.res = make([][]string, n)
	x.iv = make([][]interval, n)
	done := make(chan int, n)
	vrt.BeginExplore(prefix, prefixN, hb, prune)
	for ti := range sc.Threads {
		ti := ti
		x.res[ti] = make([]string, len(sc.Threads[ti]))
		x.iv[ti] = make([]interval, len(sc.Threads[ti]))
		vrt.GoNamed(fmt.Sprintf("T%d", ti), func() {
			defer func() { done <- ti }()
			for si, st := range sc.Threads[ti] {
				s0 := vrt.Steps()
				r := st.Do(w)
				x.res[ti][si] = r
				x.iv[ti][si] = interval{s0, vrt.Steps()}
			}
		})
	}
	jr := vrt.Join()
	vrt.EndExplore()
	x.points = vrt.Points()
	x.diverged = vrt.Diverged()
	if jr.Deadlock {
		x.deadlock = true
		// unwind to collect the stacks of the blocked threads
		func() {
			defer func() { _ = recover() }()
			vrt.Abort(vrt.AbortDeadlock)
		}()
		var parts, details []string
		blocked := map[string]bool{}
		waitFor := map[int]int{}
		for _, b := range jr.Blocked {
			blocked[b.Name] = true
			waitFor[b.ID] = b.WaitFor
		}
		// the signature names the threads on a wait-for cycle (mutex owners); threads that merely queue behind a
		// member of the cycle are bystanders and only appear in the detail. Without such a cycle (waits on channels,
		// wait groups) every blocked thread is named.
		inCycle := map[int]bool{}
		for id := range waitFor {
			seen := map[int]bool{}
			cur := id
			for {
				nx, ok := waitFor[cur]
				if !ok || nx < 0 {
					break
				}
				if seen[cur] {
					// cur is on a cycle: mark it all
					for c := cur; !inCycle[c]; c = waitFor[c] {
						inCycle[c] = true
					}
					break
				}
				seen[cur] = true
				cur = nx
			}
		}
		for _, t := range vrt.Threads() {
			if t.Stack == "" || !blocked[t.Name] {
				continue
			}
			fr := vrt.FrameSummary(t.Stack, 4)
			if len(fr) > 0 {
				role := ""
				if len(inCycle) > 0 {
					if !inCycle[t.ID] {
						details = append(details, fmt.Sprintf("%s (queued behind the cycle) blocked in %s", t.Name, strings.Join(fr, " <- ")))
						continue
					}
					role = " (on the cycle)"
				}
				parts = append(parts, frameSig(fr))
				details = append(details, fmt.Sprintf("%s%s blocked in %s", t.Name, role, strings.Join(fr, " <- ")))
			}
		}
		sort.Strings(parts)
		if sc.IgnoreDeadlock {
			return x
		}
		x.viol = append(x.viol, V("no-schedule-hangs", "deadlock:"+strings.Join(parts, "+"), "no thread can run and %d threads are blocked: %s", len(jr.Blocked), strings.Join(details, "; ")))
		return x
	}
	// results handed over through a real channel (a happens-before edge the race detector can see)
	for i := 0; i < n; i++ {
		<-done
	}
	for _, t := range vrt.Threads() {
		if t.Panic != "" {
			x.panics = append(x.panics, t.Name+": "+firstLine(t.Panic))
			fr := vrt.FrameSummary(t.Panic, 1)
			top := "?"
			if len(fr) > 0 {
				top = fr[0]
			}
			x.viol = append(x.viol, V("no-panic", "panic-in-thread:"+top, "thread %s panicked: %s", t.Name, t.Panic))
		}
	}
	x.viol = append(x.viol, w.AutoViol...)
	if w.Dead != "" {
		return x
	}
	vrt.Quiesce()
	for _, b := range vrt.Blocked() {
		x.viol = append(x.viol, V("no-schedule-hangs", "stuck-thread:"+b.Name+":"+b.Op, "thread %s is still blocked on %s (%s) at quiescence", b.Name, b.Op, b.Info))
	}
	if sc.Final != nil {
		x.final = sc.Final(w)
	}
	x.viol = append(x.viol, w.AutoViol...)
	if sc.Extra != nil {
		x.viol = append(x.viol, sc.Extra(w, x.res, x.final)...)
	}
	return x
}

// seqOutcomes runs every interleaving of the steps sequentially (each step atomic) on fresh instances.
type seqOutcome struct {
	order [][2]int // (thread, step) in execution order; thread -1 = the collection tick
	key   string
}

func (sc *Scenario) seqOutcomes() []seqOutcome {
	var out []seqOutcome
	n := len(sc.Threads)
	pos := make([]int, n)
	var order [][2]int
	tickDone := !sc.PendingTick
	var rec func()
	rec = func() {
		complete := tickDone
		for ti := range sc.Threads {
			if pos[ti] < len(sc.Threads[ti]) {
				complete = false
			}
		}
		if complete {
			out = append(out, seqOutcome{order: append([][2]int{}, order...), key: sc.runSequential(order)})
			return
		}
		if !tickDone {
			tickDone = true
			order = append(order, [2]int{-1, 0})
			rec()
			order = order[:len(order)-1]
			tickDone = false
		}
		for ti := range sc.Threads {
			if pos[ti] < len(sc.Threads[ti]) {
				order = append(order, [2]int{ti, pos[ti]})
				pos[ti]++
				rec()
				pos[ti]--
				order = order[:len(order)-1]
			}
		}
	}
	rec()
	return out
}

func (sc *Scenario) runSequential(order [][2]int) string {
	w := NewWorld(sc.Conf, sc.RC)
	defer w.Destroy()
	defer func() {
		if p := recover(); p != nil && !vrt.IsAbort(p) {
			panic(p)
		}
	}()
	if sc.Prefix != nil {
		sc.Prefix(w)
	}
	vrt.Quiesce()
	if sc.Due > 0 {
		vrt.Advance(sc.Due, false)
	}
	res := make([][]string, len(sc.Threads))
	for ti := range sc.Threads {
		res[ti] = make([]string, len(sc.Threads[ti]))
	}
	for _, o := range order {
		if o[0] < 0 {
			if d := vrt.NextPeriodic(); d >= 0 {
				vrt.Advance(d, false)
			}
			continue
		}
		res[o[0]][o[1]] = sc.Threads[o[0]][o[1]].Do(w)
		vrt.Quiesce()
	}
	final := ""
	if sc.Final != nil {
		final = sc.Final(w)
	}
	return outcomeKey(res, final)
}

func outcomeKey(res [][]string, final string) string {
	b, _ := json.Marshal(res)
	return string(b) + "\n" + final
}

// respectsRealTime: if step A ended before step B started in the explored execution, A must precede B in the order.
func respectsRealTime(order [][2]int, iv [][]interval) bool {
	idx := map[[2]int]int{}
	for i, o := range order {
		idx[o] = i
	}
	for ta := range iv {
		for sa := range iv[ta] {
			for tb := range iv {
				for sb := range iv[tb] {
					if ta == tb && sa == sb {
						continue
					}
					if iv[ta][sa].e < iv[tb][sb].s && idx[[2]int{ta, sa}] > idx[[2]int{tb, sb}] {
						return false
					}
				}
			}
		}
	}
	return true
}

type schedArg struct {
	ID      string  `json:"id"`
	Tier    string  `json:"tier"`
	Sc      int     `json:"sc"`
	Budget  float64 `json:"budget_s"`
	Replay  []uint8 `json:"replay,omitempty"`
	Verbose bool    `json:"verbose,omitempty"`
}

type schedOut struct {
	Execs     int         `json:"execs"`
	Points    int         `json:"points"`
	HBClasses int         `json:"hb_classes"`
	Outcomes  int         `json:"outcomes"`
	SeqRuns   int         `json:"seq_runs"`
	Bound     int         `json:"bound"`
	Complete  bool        `json:"complete"`
	MaxPts    int         `json:"max_points"`
	Viol      []Violation `json:"viol,omitempty"`
	Sample    []string    `json:"sample,omitempty"`
	Trace     []string    `json:"trace,omitempty"`
	Deadlocks int         `json:"deadlocks"`
	BoundDone int         `json:"bound_done"`
	Infra     string      `json:"infra,omitempty"`
	Races     []string    `json:"races,omitempty"`
}

var schedCache = map[string][]*Scenario{}

func getScenarios(id, tier string) []*Scenario {
	k := id + "/" + tier
	if s, ok := schedCache[k]; ok {
		return s
	}
	s := SchedChecks[id].Scenarios(tier)
	schedCache[k] = s
	return s
}

func init() {
	RegisterJob("sched", func(arg json.RawMessage) (any, error) {
		var a schedArg
		if err := json.Unmarshal(arg, &a); err != nil {
			return nil, err
		}
		sc := getScenarios(a.ID, a.Tier)[a.Sc]
		return sc.explore(a), nil
	})
}

func choicesOf(pts []vrt.PointRec, n int) ([]uint8, []uint8) {
	c := make([]uint8, n)
	m := make([]uint8, n)
	for i := 0; i < n; i++ {
		c[i], m[i] = pts[i].Chosen, pts[i].N
	}
	return c, m
}

func (sc *Scenario) explore(a schedArg) (out schedOut) {
	if sc.MaxSeconds > 0 && sc.MaxSeconds < a.Budget {
		a.Budget = sc.MaxSeconds
	}
	deadline := time.Now().Add(time.Duration(a.Budget * float64(time.Second)))
	out.Bound = sc.Bound
	race := newRaceWatch()
	check := func(x *execResult, prefix []uint8, seq map[string][]seqOutcome) {
		out.Execs++
		if x.deadlock {
			out.Deadlocks++
		}
		out.Points += len(x.points)
		if len(x.points) > out.MaxPts {
			out.MaxPts = len(x.points)
		}
		if x.diverged != "" {
			out.Infra = "divergence while replaying a recorded prefix: " + x.diverged
		}
		vs := x.viol
		if sc.Linearizable && !x.deadlock && x.abort == "" && len(x.panics) == 0 {
			key := outcomeKey(x.res, x.final)
			ok := false
			for _, so := range seq[key] {
				if respectsRealTime(so.order, x.iv) {
					ok = true
					break
				}
			}
			if !ok {
				base := sc.Name
				if i := strings.Index(base, "-"); i > 0 {
					if j := strings.Index(base[i+1:], "-"); j > 0 {
						base = base[i+1+j+1:] // without check id and store
					}
				}
				sig := "not-linearizable:" + base
				if _, known := seq[key]; known {
					sig = "not-linearizable:real-time-order:" + base
				}
				vs = append(vs, V("as-if-one-at-a-time", sig, "no sequential order of the requests (consistent with their real-time order) produces this outcome:\n%s\nsequential outcomes:\n%s", clipStr(key, 1800), seqSummary(seq)))
			}
		}
		for _, r := range race.collect() {
			out.Races = append(out.Races, r)
		}
		c, _ := choicesOf(x.points, len(x.points))
		for _, v := range vs {
			v.Conf = sc.Name
			v.History = sc.stepNames()
			v.Extra = map[string]any{"schedule": c, "sc": a.Sc}
			out.Viol = append(out.Viol, v)
		}
	}
	var seq map[string][]seqOutcome
	if sc.Linearizable {
		seq = map[string][]seqOutcome{}
		for _, so := range sc.seqOutcomes() {
			seq[so.key] = append(seq[so.key], so)
			out.SeqRuns++
		}
	}
	if a.Replay != nil {
		x := sc.runSchedule(a.Replay, nil, false, nil, true)
		check(&x, a.Replay, seq)
		out.Trace = x.trace
		out.Trace = append(out.Trace, "-- results: "+outcomeKey(x.res, x.final))
		return out
	}
	// determinism self-test: the default schedule twice
	x1 := sc.runSchedule(nil, nil, false, nil, false)
	x2 := sc.runSchedule(nil, nil, false, nil, false)
	c1, _ := choicesOf(x1.points, len(x1.points))
	c2, _ := choicesOf(x2.points, len(x2.points))
	if string(c1) != string(c2) || outcomeKey(x1.res, x1.final) != outcomeKey(x2.res, x2.final) {
		out.Infra = fmt.Sprintf("nondeterministic replay of the default schedule of %s (%d vs %d points)", sc.Name, len(c1), len(c2))
		return out
	}
	outcomes := map[string]bool{}
	hb := !sc.NoHB && !vrt.RaceBuild
	complete := true
	classes := 0
	// iterative preemption bounding: everything with 0 preemptions, then 1, ... so that the bound that was
	// completed is known when the budget runs out
	out.BoundDone = -1
	for b := 0; b <= sc.Bound; b++ {
		seen := map[uint64]uint16{}
		complete = true
		var dfs func(prefix, prefixN []uint8)
		dfs = func(prefix, prefixN []uint8) {
			if time.Now().After(deadline) {
				complete = false
				return
			}
			x := sc.runSchedule(prefix, prefixN, hb, nil, false)
			check(&x, prefix, seq)
			if x.deadlock || x.abort != "" {
				// the threads were unwound, their result slots are not synchronised with this goroutine
				outcomes["aborted"] = true
			} else {
				outcomes[HashStr(outcomeKey(x.res, x.final))] = true
				if len(out.Sample) < 3 {
					c, _ := choicesOf(x.points, len(x.points))
					out.Sample = append(out.Sample, fmt.Sprintf("schedule %v -> %s", c, clipStr(outcomeKey(x.res, ""), 300)))
				}
			}
			if out.Infra != "" {
				return
			}
			for i := len(prefix); i < len(x.points); i++ {
				p := x.points[i]
				if hb {
					if pre, ok := seen[p.Key]; ok && pre <= p.Pre {
						break
					}
					seen[p.Key] = p.Pre
				}
				for alt := 1; alt < int(p.N); alt++ {
					cost := int(p.Pre)
					if p.CurEn && p.Kind != vrt.OpChoice {
						cost++
					}
					if cost > b {
						continue
					}
					c, m := choicesOf(x.points, i)
					dfs(append(c, uint8(alt)), append(m, p.N))
					if out.Infra != "" || !complete {
						return
					}
				}
			}
		}
		dfs(nil, nil)
		if len(seen) > classes {
			classes = len(seen)
		}
		if !complete || out.Infra != "" {
			break
		}
		out.BoundDone = b
	}
	seen := map[uint64]uint16{}
	_ = seen
	out.Complete = complete
	out.HBClasses = classes
	out.Outcomes = len(outcomes)
	return out
}

// frameSig: the two innermost olareg frames of a blocked thread, closure suffixes and package paths shortened.
func frameSig(fr []string) string {
	n := 2
	if len(fr) < n {
		n = len(fr)
	}
	var out []string
	for _, f := range fr[:n] {
		f = strings.TrimPrefix(f, "internal/")
		if i := strings.Index(f, ".func"); i > 0 {
			f = f[:i]
		}
		f = strings.ReplaceAll(f, "[...]", "")
		out = append(out, f)
	}
	return strings.Join(out, "<-")
}

func (sc *Scenario) stepNames() []string {
	var out []string
	for ti, th := range sc.Threads {
		var names []string
		for _, s := range th {
			names = append(names, s.Name)
		}
		out = append(out, fmt.Sprintf("T%d: %s", ti, strings.Join(names, "; ")))
	}
	if sc.PendingTick {
		out = append(out, "gcTicker: pending collection tick")
	}
	if sc.Due > 0 {
		out = append(out, fmt.Sprintf("timers due after %v", sc.Due))
	}
	return out
}

func seqSummary(seq map[string][]seqOutcome) string {
	var keys []string
	for k := range seq {
		keys = append(keys, k)
	}
	sort.Strings(keys)
	var sb strings.Builder
	for i, k := range keys {
		if i >= 6 {
			fmt.Fprintf(&sb, "… (%d more)\n", len(keys)-i)
			break
		}
		fmt.Fprintf(&sb, "  [%d orders] %s\n", len(seq[k]), clipStr(strings.ReplaceAll(k, "\n", " | "), 700))
	}
	return sb.String()
}

func clipStr(s string, n int) string {
	if len(s) > n {
		return s[:n] + "…"
	}
	return s
}

// RunSched is the coordinator: one job per scenario.
func RunSched(id, tier string) int {
	c := SchedChecks[id]
	rep := NewReport(id, tier, c.Level)
	rep.Rule = c.Rule
	rep.Assume = c.Assume
	RunSchedInto(rep, id, tier)
	return rep.Emit()
}

func RunSchedInto(rep *Report, id, tier string) {
	c := SchedChecks[id]
	scs := getScenarios(id, tier)
	budget := 100 * time.Second
	if c.Budget != nil {
		budget = c.Budget(tier)
	}
	pool := NewPool(workers())
	pool.JobTimeout = budget + 90*time.Second
	if c.Race {
		pool.Env = append(pool.Env, "GORACE=halt_on_error=0 log_path="+raceLogBase())
	}
	defer pool.Close()
	var jobs []Job
	for i := range scs {
		jobs = append(jobs, MkJob("sched", schedArg{ID: id, Tier: tier, Sc: i, Budget: budget.Seconds() * 0.85}))
	}
	res := pool.Run(jobs, nil)
	for i, jr := range res {
		sc := scs[i]
		if jr.Died {
			v := V("no-schedule-hangs", "process-death:"+deathSig(jr.Log), "the worker exploring %s died or hung: %s\n%s", sc.Name, jr.Error, tail(jr.Log, 2500))
			v.Conf = sc.Name
			v.History = sc.stepNames()
			rep.AddViolation(v)
			continue
		}
		var so schedOut
		if !decode(rep, jr, &so) {
			continue
		}
		if so.Infra != "" {
			rep.Infra("%s: %s", sc.Name, so.Infra)
		}
		rep.Traces += so.Execs + so.SeqRuns
		rep.Evals += so.Execs
		rep.Trans += so.Points
		rep.States += so.HBClasses
		if so.HBClasses == 0 {
			rep.States += so.Execs
		}
		rep.Outcomes += so.Outcomes
		rep.NonTrivial += so.Outcomes
		if !so.Complete {
			rep.Cap("%s: time budget reached inside preemption bound %d after %d executions (bound %d completed)", sc.Name, so.BoundDone+1, so.Execs, so.BoundDone)
		}
		for _, v := range so.Viol {
			rep.AddViolation(v)
		}
		for _, r := range so.Races {
			v := V("no-data-race", "race:"+strings.ReplaceAll(r, " ", "_"), "the race detector reported a data race while exploring %s: %s", sc.Name, r)
			v.Conf = sc.Name
			v.History = sc.stepNames()
			rep.AddViolation(v)
		}
		rep.Parts = append(rep.Parts, map[string]any{"scenario": sc.Name, "executions": so.Execs, "scheduling_decisions": so.Points, "max_decisions_per_execution": so.MaxPts,
			"hb_classes": so.HBClasses, "distinct_outcomes": so.Outcomes, "sequential_reference_runs": so.SeqRuns, "preemption_bound": so.Bound, "bound_completed": so.BoundDone, "all_bounds_completed": so.Complete, "executions_ending_in_deadlock": so.Deadlocks})
		if len(rep.Samples) < 6 && len(so.Sample) > 0 {
			rep.Samples = append(rep.Samples, map[string]any{"scenario": sc.Name, "threads": sc.stepNames(), "schedules": so.Sample})
		}
	}
}

// ReplaySched re-executes one recorded schedule verbosely.
func ReplaySched(id, tier string, v Violation) int {
	scs := getScenarios(id, tier)
	for i, sc := range scs {
		if sc.Name != v.Conf {
			continue
		}
		var sch []uint8
		if raw, ok := v.Extra["schedule"]; ok {
			switch t := raw.(type) {
			case string:
				// base64 from JSON []uint8
				b, _ := json.Marshal(t)
				_ = json.Unmarshal(b, &sch)
			case []any:
				for _, e := range t {
					if f, ok := e.(float64); ok {
						sch = append(sch, uint8(f))
					}
				}
			}
		}
		if sch == nil {
			sch = []uint8{}
		}
		out := sc.explore(schedArg{ID: id, Tier: tier, Sc: i, Budget: 60, Replay: sch, Verbose: true})
		for _, l := range out.Trace {
			fmt.Println(l)
		}
		for _, x := range out.Viol {
			fmt.Printf("VIOLATION property=%s rule=%s sig=%s\n  %s\n", id, x.Rule, x.Sig, indent(x.Detail))
		}
		if len(out.Viol) > 0 {
			return 1
		}
		return 0
	}
	fmt.Fprintln(os.Stderr, "scenario not found:", v.Conf)
	return 2
}
