package checks

import (
	"fmt"
	"net/url"
	"strings"
	"time"

	"github.com/olareg/olareg/internal/verif/h"
	"github.com/olareg/olareg/types"
)

// C04 — only complete, well-formed manifests are accepted; refusals change nothing.

type c04Body struct {
	name string
	data []byte
	ct   string // Content-Type sent
	item string // fixture item the body is (for completeness and model update), "" if never acceptable
	bad  string // reason why it must be refused whatever the state ("" = acceptable when complete)
}

func c04Specs(tier string) []*h.SeqSpec {
	f := StdFix()
	f.Blob("nc", mtConf, []byte(`{"never":"uploaded"}`))
	f.Blob("nl", mtLayer, []byte("never-uploaded-layer"))
	f.Blob("cb", mtConf, []byte(`{"only":"in b"}`))
	f.Blob("lb", mtLayer, []byte("only-in-b"))
	f.Image("Inoc", mtImg, "nc", []string{"l1"}, "", "", nil)
	f.Image("Inol", mtImg, "c", []string{"nl"}, "", "", nil)
	f.Image("Ib", mtImg, "cb", []string{"lb"}, "", "", nil)
	f.Image("Imiss", mtImg, "c", []string{"l2"}, "", "", map[string]string{"never": "pushed"})
	f.Index("X1", mtIdx, []string{"I1"}, "", "", nil)
	f.Index("Xmiss", mtIdx, []string{"Imiss"}, "", "", nil)
	// an image body without the optional mediaType field
	noMT := []byte(strings.Replace(string(f.Items["I1"].Data), `"mediaType":"`+mtImg+`",`, "", 1))
	f.Raw("I1nomt", f.Items["I1"], noMT)
	const repo = "a"
	i1 := f.Items["I1"]
	// references whose digest is not a digest at all: such content cannot exist, the push must be refused
	mangle := func(body []byte, good, bad string) []byte { return []byte(strings.Replace(string(body), good, bad, 1)) }
	l1d, cd := f.Items["l1"].Dig, f.Items["c"].Dig
	bodies := []c04Body{
		{"valid image I1", i1.Data, mtImg, "I1", ""},
		{"image, config never uploaded", f.Items["Inoc"].Data, mtImg, "Inoc", ""},
		{"image, layer never uploaded", f.Items["Inol"].Data, mtImg, "Inol", ""},
		{"image, blobs only in repository b", f.Items["Ib"].Data, mtImg, "Ib", ""},
		{"index of I1", f.Items["X1"].Data, mtIdx, "X1", ""},
		{"index of a manifest never pushed", f.Items["Xmiss"].Data, mtIdx, "Xmiss", ""},
		{"truncated JSON", i1.Data[:len(i1.Data)/2], mtImg, "", "does not parse"},
		{"valid image followed by a stray }", append(append([]byte{}, i1.Data...), '}'), mtImg, "", "does not parse (content after the document)"},
		{"valid image followed by a newline and ]", append(append([]byte{}, i1.Data...), '\n', ']'), mtImg, "", "does not parse (content after the document)"},
		{"valid index followed by a stray }", append(append([]byte{}, f.Items["X1"].Data...), '}'), mtIdx, "", "does not parse (content after the document)"},
		{"image, absent non-distributable layer with urls", []byte(strings.Replace(string(f.Items["Inol"].Data), `"mediaType":"`+mtLayer+`","digest":"`+f.Items["nl"].Dig+`"`, `"mediaType":"application/vnd.oci.image.layer.nondistributable.v1.tar+gzip","urls":["https://example.com/layer"],"digest":"`+f.Items["nl"].Dig+`"`, 1)), mtImg, "", "references a layer that is not in this repository (a foreign layer is a layer)"},
		{"image body sent as index type", i1.Data, mtIdx, "", "media type inconsistent with the body (mediaType field names the image type)"},
		{"index body sent as image type", f.Items["X1"].Data, mtImg, "", "media type inconsistent with the body (mediaType field names the index type)"},
		{"unsupported Content-Type", i1.Data, "application/json", "", "unsupported media type"},
		{"no Content-Type, detectable image", i1.Data, "", "I1", ""},
		{"no Content-Type, undetectable body", []byte("{}"), "", "", "media type cannot be determined"},
		{"no Content-Type, no mediaType, empty manifests array", []byte(`{"schemaVersion":2,"manifests":[]}`), "", "", "media type cannot be determined"},
		{"image without mediaType field", noMT, mtImg, "I1nomt", ""},
		{"docker type for an OCI body", i1.Data, types.MediaTypeDocker2Manifest, "", "media type inconsistent with the body (mediaType field names the OCI type)"},
		{"image, layer digest of the wrong length", mangle(i1.Data, l1d, "sha256:abcd"), mtImg, "", "a layer digest that is not a digest"},
		{"image, layer digest empty", mangle(i1.Data, l1d, ""), mtImg, "", "a layer digest that is not a digest"},
		{"image, layer digest with an unregistered algorithm", mangle(i1.Data, l1d, "md5:d41d8cd98f00b204e9800998ecf8427e"), mtImg, "", "a layer digest that is not a digest"},
		{"image, config digest empty", mangle(i1.Data, cd, ""), mtImg, "", "a config digest that is not a digest"},
		{"image, layer digest with dot segments", mangle(i1.Data, l1d, "sha256:../../../b/blobs/sha256/"+strings.TrimPrefix(f.Items["lb"].Dig, "sha256:")), mtImg, "", "a layer digest that is not a digest"},
		{"index, child digest of the wrong length", mangle(f.Items["X1"].Data, i1.Dig, "sha256:1234"), mtIdx, "", "a child digest that is not a digest"},
		{"index, child digest empty", mangle(f.Items["X1"].Data, i1.Dig, ""), mtIdx, "", "a child digest that is not a digest"},
	}
	items := []string{"c", "l1", "l2", "e", "cb", "lb", "nc", "nl", "I1", "I2", "Inoc", "Inol", "Ib", "Imiss", "X1", "Xmiss", "A1", "I1nomt"}
	tags := []string{"t", "u"}
	subjects := []string{i1.Dig}
	var ops []h.Op
	// state building
	for _, b := range []string{"c", "l1", "e"} {
		ops = append(ops, opPushBlob("C04", repo, f, b))
	}
	ops = append(ops, h.Op{Name: "push blobs cb, lb to b", Do: func(w *h.World) []h.Violation {
		for _, b := range []string{"cb", "lb"} {
			if r := w.PushBlob("b", f.Items[b].Data, f.Items[b].Dig); r.Status == 201 {
				regM(w).Repo("b").PushBlob(b)
			}
		}
		return nil
	}})
	// the exact bytes of a manifest stored as a plain blob: that proves nothing about the manifest's references
	for _, n := range []string{"Inol", "Xmiss", "Ib"} {
		n := n
		ops = append(ops, h.Op{Name: "upload the bytes of " + n + " as a blob", Do: func(w *h.World) []h.Violation {
			if r := w.PushBlob(repo, f.Items[n].Data, f.Items[n].Dig); r.Status == 201 {
				regM(w).Repo(repo).PushBlob(n)
			}
			return nil
		}})
	}
	ops = append(ops, opPushMan("C04", repo, f, "A1", "u"))
	ops = append(ops, opDeleteMan("C04", repo, f, "I1"))
	// the bytes of a listed manifest removed through the blob API: the index entry stays, the content is gone - an index
	// naming it references content that does not exist
	ops = append(ops, h.Op{Name: "delete the bytes of I1 through the blob API", Do: func(w *h.World) []h.Violation {
		m := regM(w).Repo(repo)
		if r := w.Delete("/v2/" + repo + "/blobs/" + f.Items["I1"].Dig); r.Status == 202 {
			m.DeleteManifest("I1")
			delete(m.Cas, "I1")
		}
		return nil
	}})
	nBuild := len(ops)
	_ = nBuild
	// the matrix
	push := func(name string, b c04Body, ref func() string, refBad string, query string, queryBad string) {
		ops = append(ops, h.Op{Name: name, Do: func(w *h.World) []h.Violation {
			m := regM(w).Repo(repo)
			before := ReadTranscript(w, f, repo, items, tags, subjects)
			hd := map[string]string{}
			if b.ct != "" {
				hd["Content-Type"] = b.ct
			}
			r := w.Do(h.Req{Method: "PUT", Path: "/v2/" + repo + "/manifests/" + ref(), Query: query, Body: b.data, Header: hd})
			// verdict of the model
			mustRefuse := b.bad
			if mustRefuse == "" && refBad != "" {
				mustRefuse = refBad
			}
			if mustRefuse == "" && queryBad != "" {
				mustRefuse = queryBad
			}
			open := false
			if mustRefuse == "" {
				complete, limbo := m.Complete(f, f.Items[b.item])
				if !complete && !limbo {
					mustRefuse = "references content that is not in this repository"
				}
				open = limbo
			}
			var vs []h.Violation
			switch {
			case r.Status == 201:
				if mustRefuse != "" && !open {
					vs = append(vs, h.V("acknowledged-only-if-well-formed", "bad-manifest-accepted:"+sigOf(name), "%s must be refused (%s) but was acknowledged: %s", name, mustRefuse, r))
				}
				// keep the model in step with the implementation
				if it := f.ByDigest(r.H.Get("Docker-Content-Digest")); it != nil {
					tg := ""
					if rr := ref(); types.RefTagRE.MatchString(rr) {
						tg = rr
					}
					m.PushManifest(it, tg)
					if b.ct != "" {
						m.ManMT[it.Name] = b.ct
					}
				}
			case r.Status >= 400 && r.Status < 500:
				if mustRefuse == "" && !open {
					vs = append(vs, h.V("complete-manifest-accepted", "good-manifest-refused", "%s is complete and well formed but was refused: %s", name, r))
				}
				if after := ReadTranscript(w, f, repo, items, tags, subjects); after != before {
					vs = append(vs, h.V("refusal-changes-nothing", "refused-push-changed-state", "%s was refused (%d) but the readable state changed:\n%s", name, r.Status, lineDiff(before, after)))
				}
			default:
				vs = append(vs, h.V("refused-with-4xx", fmt.Sprintf("manifest-push-status-%d", r.Status), "%s answered %s", name, r))
			}
			return vs
		}})
	}
	tagRef := func() string { return "t" }
	for _, b := range bodies {
		b := b
		push("PUT "+b.name+" as tag t", b, tagRef, "", "", "")
		push("PUT "+b.name+" by its digest", b, func() string { return h.Dig("sha256", b.data) }, "", "", "")
	}
	b0 := bodies[0]
	push("PUT valid image under a 128 character tag (the longest valid one)", b0, func() string { return strings.Repeat("a", 128) }, "", "", "")
	push("PUT valid image under a 129 character tag", b0, func() string { return strings.Repeat("a", 129) }, "invalid tag", "", "")
	push("PUT valid image under tag a!b", b0, func() string { return "a!b" }, "invalid tag", "", "")
	push("PUT valid image under the digest of other content", b0, func() string { return f.Items["I2"].Dig }, "reference is not the digest of the body", "", "")
	push("PUT valid image under the digest of other content ?digest=the body's digest", b0, func() string { return f.Items["I2"].Dig }, "reference is not the digest of the body", "digest="+url.QueryEscape(h.Dig("sha256", b0.data)), "")
	push("PUT valid image under a malformed digest", b0, func() string { return "sha256:xyz" }, "malformed digest", "", "")
	push("PUT valid image under a sha512 digest", b0, func() string { return h.Dig("sha512", b0.data) }, "", "", "")
	push("PUT valid image as t ?digest=right sha512", b0, tagRef, "", "digest="+url.QueryEscape(h.Dig("sha512", b0.data)), "")
	push("PUT valid image as t ?digest=wrong", b0, tagRef, "", "digest="+url.QueryEscape(f.Items["I2"].Dig), "?digest= is not the digest of the body")
	push("PUT valid image as t ?digest=malformed", b0, tagRef, "", "digest=sha256:zz", "malformed ?digest=")
	depth := 2
	if tier == "thorough" {
		depth = 3
	}
	var specs []*h.SeqSpec
	for _, store := range []string{"mem", "dir", "memdir"} {
		for _, start := range []string{"empty", "populated", "referrers"} {
			if store == "memdir" && start == "referrers" && tier != "thorough" {
				continue // the memory store over a directory: two start states in the quick tier
			}
			start := start
			specs = append(specs, &h.SeqSpec{
				Name: "c04-" + store + "-" + start,
				Conf: &h.Conf{Name: store, Store: store},
				Init: func(w *h.World) {
					m := NewMRegFix(f)
					w.M = m
					r := m.Repo(repo)
					blobs := []string{"l2"}
					if start != "empty" {
						blobs = []string{"l2", "c", "l1", "e"}
					}
					for _, b := range blobs {
						mustStatus(w.PushBlob(repo, f.Items[b].Data, f.Items[b].Dig), 201)
						r.PushBlob(b)
					}
					if start != "empty" {
						mustStatus(w.PutManifest(repo, "u", mtImg, f.Items["I1"].Data), 201)
						r.PushManifest(f.Items["I1"], "u")
					}
					if start == "referrers" {
						mustStatus(w.PutManifest(repo, f.Items["A1"].Dig, mtImg, f.Items["A1"].Data), 201)
						r.PushManifest(f.Items["A1"], "")
					}
				},
				Ops:      ops,
				Model:    func(w *h.World) string { return regM(w).String() },
				NonTriv:  func(w *h.World) bool { return len(regM(w).Repo(repo).Mans) > 0 },
				MaxDepth: depth,
			})
		}
	}
	return specs
}

func sigOf(reason string) string {
	r := strings.NewReplacer(" ", "-", "(", "", ")", "", "?", "", "=", "", ",", "")
	s := r.Replace(reason)
	if len(s) > 60 {
		s = s[:60]
	}
	return s
}

func lineDiff(a, b string) string {
	al, bl := strings.Split(a, "\n"), strings.Split(b, "\n")
	var out []string
	for i := 0; i < len(al) || i < len(bl); i++ {
		var x, y string
		if i < len(al) {
			x = al[i]
		}
		if i < len(bl) {
			y = bl[i]
		}
		if x != y {
			out = append(out, "  before: "+x, "  after:  "+y)
		}
		if len(out) > 12 {
			break
		}
	}
	return strings.Join(out, "\n")
}

func init() {
	h.RegisterSeq(&h.SeqCheck{
		ID:    "C04",
		Level: "model_checking",
		Rule: "breadth-first search (bounded depth) in which every manifest push of a matrix of 21 bodies (valid, references whose digest is malformed / empty / of an unregistered algorithm / contains dot segments, incomplete in three ways, blobs only in another repository, truncated, wrong class for the Content-Type, mediaType field contradicting the header, unsupported / absent Content-Type) x references (tag, own digest, 129-char tag, bad character, other digest, malformed digest, sha512 digest, ?digest= right/wrong/malformed) is applied in every repository state reachable by the building operations and by other pushes; " +
			"acknowledged iff the model predicate holds; a refusal must be 4xx and leave the complete read transcript (tags, manifests, blobs, referrers) unchanged; non-trivial = state with a manifest",
		Assume: []string{"a child manifest whose body is still in the store but whose index entry was deleted is left open (the statement says 'exists')",
			"'inconsistent with the body' is only claimed when the body's mediaType field names another type than the Content-Type"},
		Specs: c04Specs,
		Budget: func(tier string) time.Duration {
			if tier == "thorough" {
				return 12 * time.Minute
			}
			return 110 * time.Second
		},
	})
}
