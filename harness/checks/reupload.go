package checks

import (
	"fmt"
	"net/url"
	"time"

	"github.com/olareg/olareg/config"
	"github.com/olareg/olareg/internal/verif/h"
	"github.com/olareg/olareg/internal/verif/vrt"
)

// uploadWays are the four ways a client can put a blob into a repository.
var uploadWays = []string{"POST with digest", "POST then PUT", "POST, PATCH, PUT", "mount from repository o"}

// uploadVia uploads data to repo in the given way and returns the final response (201 expected).
func uploadVia(w *h.World, repo string, data []byte, dig, way string) h.Resp {
	oct := map[string]string{"Content-Type": "application/octet-stream"}
	follow := func(r h.Resp, method string, body []byte, final bool) h.Resp {
		u, err := url.Parse(r.H.Get("Location"))
		if err != nil || r.Status != 202 {
			return r
		}
		q := u.Query()
		if final {
			q.Set("digest", dig)
		}
		return w.Do(h.Req{Method: method, Path: u.Path, Query: q.Encode(), Body: body, Header: oct})
	}
	switch way {
	case "POST with digest":
		return w.PushBlob(repo, data, dig)
	case "POST then PUT":
		r := w.Do(h.Req{Method: "POST", Path: "/v2/" + repo + "/blobs/uploads/"})
		return follow(r, "PUT", data, true)
	case "POST, PATCH, PUT":
		r := w.Do(h.Req{Method: "POST", Path: "/v2/" + repo + "/blobs/uploads/"})
		r = follow(r, "PATCH", data, false)
		return follow(r, "PUT", nil, true)
	case "mount from repository o":
		return w.Do(h.Req{Method: "POST", Path: "/v2/" + repo + "/blobs/uploads/", Query: "mount=" + url.QueryEscape(dig) + "&from=o"})
	}
	panic("unknown way " + way)
}

// reuploadSpecs: content that was in the store for longer than the grace period, lost its last reference and is
// uploaded again - in each of the four ways - is a recent upload: the next collection must not take it.
func reuploadSpecs(tier string) []*h.SeqSpec {
	f := StdFix()
	const repo = "r"
	pols := []GCPolicy{
		{Untagged: false, Dangling: false, WithSubj: true, EmptyRepo: true, Grace: time.Hour, Freq: 15 * time.Minute},
		{Untagged: true, Dangling: true, WithSubj: true, EmptyRepo: true, Grace: time.Hour, Freq: 15 * time.Minute},
	}
	var specs []*h.SeqSpec
	for _, store := range []string{"mem", "dir"} {
		for _, pol := range pols {
			store, pol := store, pol
			var ops []h.Op
			ops = append(ops, h.Op{Name: "push I1 completely as t1", Do: func(w *h.World) []h.Violation { return gcPushMacro(w, f, repo, "I1", "t1") }})
			ops = append(ops, h.Op{Name: "delete I1 by digest", Do: func(w *h.World) []h.Violation {
				w.Delete("/v2/" + repo + "/manifests/" + f.Items["I1"].Dig)
				regM(w).Repo(repo).DeleteManifest("I1")
				return nil
			}})
			for _, way := range uploadWays {
				way := way
				ops = append(ops, h.Op{Name: "upload l1 again: " + way, Do: func(w *h.World) []h.Violation {
					it := f.Items["l1"]
					r := uploadVia(w, repo, it.Data, it.Dig, way)
					if r.Status == 201 {
						regM(w).Repo(repo).PushBlob("l1")
					} else if way != "mount from repository o" {
						return []h.Violation{h.V("valid-upload-acknowledged", "valid-blob-refused", "upload of l1 (%s) answered %s", way, r)}
					}
					return nil
				}})
			}
			collected := func(w *h.World) { regM(w).Repo(repo).Collected(f, pol) }
			ops = append(ops, h.Op{Name: "advance 1.2 x grace", Do: func(w *h.World) []h.Violation {
				vrt.Advance(pol.Grace+pol.Grace/5+29*time.Second, false)
				collected(w)
				return nil
			}})
			ops = append(ops, h.Op{Name: "collection tick", Do: func(w *h.World) []h.Violation {
				if gcTick(w) {
					collected(w)
				}
				return nil
			}})
			depth := 5
			if tier == "thorough" {
				depth = 6
			}
			specs = append(specs, &h.SeqSpec{
				Name: fmt.Sprintf("reupload-%s-%s", store, pol.Name()),
				Conf: &h.Conf{Name: store + "-reupload", Store: store, Mod: func(c *config.Config) { pol.Apply(c) }},
				Init: func(w *h.World) {
					w.M = NewMRegFix(f)
					vrt.Advance(67*time.Second, false)
					// repository o holds l1 under a tag for good: the mount source
					mustStatus(w.PushBlob("o", f.Items["c"].Data, f.Items["c"].Dig), 201)
					mustStatus(w.PushBlob("o", f.Items["l1"].Data, f.Items["l1"].Dig), 201)
					mustStatus(w.PutManifest("o", "keep", mtImg, f.Items["I1"].Data), 201)
				},
				Ops:   ops,
				Model: func(w *h.World) string { return regM(w).String() },
				Probe: func(w *h.World) []h.Violation {
					vs := CheckRetained(w, f, regM(w).Repo(repo), repo, pol)
					for i := range vs {
						vs[i].Sig = "reupload:" + vs[i].Sig
					}
					return vs
				},
				NonTriv:  func(w *h.World) bool { return len(regM(w).Repo(repo).Cas) > 0 },
				MaxDepth: depth,
			})
		}
	}
	return specs
}
