// Package vrt is the deterministic runtime under the instrumented olareg build.
//
// Modes: Off (every hook passes through to the real primitive) and Controlled (exactly
// one managed thread runs at a time; the next thread is chosen at every scheduling point,
// by default "keep running, else lowest id", or by the built-in exploration recorder that
// replays a choice prefix and records every branching point for the DFS in harness/sched).
//
// Everything that touches scheduler state is //go:norace and uses fixed-size arrays only:
// the scheduler must stay invisible to the race detector (see gate_pipe.go).
package vrt

import (
	"fmt"
	"reflect"
	"runtime"
	"sort"
	"strings"
	"time"
	"unsafe"
)

type Mode int32

const (
	Off Mode = iota
	Controlled
)

type OpKind uint8

const (
	OpNone OpKind = iota
	OpStart
	OpYield
	OpLock
	OpRLock
	OpWait
	OpRecv
	OpSend
	OpSelect
	OpFS
	OpOnce
	OpJoin
	OpQuiesce
	OpChoice
	// notes (not scheduling points)
	OpUnlock
	OpRUnlock
	OpWgAdd
	OpClose
	OpSpawn
	OpEnd
)

var kindNames = [...]string{"none", "start", "yield", "lock", "rlock", "wait", "recv", "send", "select", "fs", "once", "join", "quiesce", "choice", "unlock", "runlock", "wgadd", "close", "spawn", "end"}

func (k OpKind) String() string { return kindNames[k] }

// Waitable is implemented by the vsync wrappers: VReady reports whether the blocking
// operation of the given kind could proceed now.
type Waitable interface{ VReady(kind OpKind) bool }

const (
	MaxThreads = 32
	MaxPoints  = 1 << 16
	maxChans   = 8
	objTabSize = 1 << 13
)

type tstate uint8

const (
	tsFree tstate = iota
	tsNew
	tsPending
	tsRunning
	tsDone
)

type thread struct {
	id       int
	name     string
	path     uint64 // stable identity across executions (hash of spawn path)
	g        *gate
	state    tstate
	op       OpKind
	obj      Waitable
	objs     [3]uintptr
	chans    [maxChans]reflect.Value
	nch      int
	hasDef   bool
	info     string
	fn       func()
	abort    bool
	daemon   bool
	spawned  int
	nops     uint32
	vc       [MaxThreads]uint32
	panicVal any
	panicStk string
	blockStk string
}

type AbortReason int

const (
	AbortNone AbortReason = iota
	AbortDeadlock
	AbortHorizon
	AbortCrash
	AbortDiverged
)

func (a AbortReason) String() string {
	return [...]string{"none", "deadlock", "horizon", "crash", "diverged"}[a]
}

// abortSentinel unwinds managed threads when an execution is abandoned.
type abortSentinel struct{ Reason AbortReason }

func (a abortSentinel) Error() string { return "vrt: execution aborted: " + a.Reason.String() }

// IsAbort reports whether a recovered panic value is the runtime's abort sentinel.
func IsAbort(v any) bool { _, ok := v.(abortSentinel); return ok }

type PointRec struct {
	N      uint8
	Chosen uint8
	CurEn  bool
	Kind   OpKind // kind of the chosen thread's pending op (OpChoice for data choices)
	En     [MaxThreads]uint8
	Key    uint64
	Pre    uint16 // preemptions spent before this point
}

type state struct {
	mode     Mode
	threads  [MaxThreads]*thread
	nthreads int
	cur      *thread
	aborting bool
	reason   AbortReason
	steps    int
	horizon  int
	stuck    bool
	fsPoints bool // vos calls are scheduling points while exploring
	// exploration recorder
	exploring bool
	prefix    []uint8
	prefixN   []uint8
	pts       [MaxPoints]PointRec
	npts      int
	preempts  int
	diverged  string
	hb        bool
	hbSum     uint64
	objKeys   [objTabSize]uintptr
	objGen    [objTabSize]uint32
	objVC     [objTabSize][MaxThreads]uint32
	gen       uint32
	pruneFn   func(key uint64, pre int, idx int) bool
	pruned    bool
	// closed channels
	closed [256]uintptr
	// closedKeep holds the closed channels themselves: as long as an address is in the table the channel must not be
	// collected, or a channel made later in the same execution can get the address and would count as closed
	closedKeep [256]any
	nclosed    int
	// external channels (fed by the driver: tickers, timers, signals); a thread blocked on one is idle, not stuck
	ext     [64]uintptr
	extKeep [64]any // keeps the registered channels alive (see closedKeep)
	next    int
	// keys hook
	keysHook func(site string, n int) []int
	panics   int
}

var s state

// Config of one execution.
type Config struct {
	Horizon  int
	FSPoints bool
}

// Reset abandons whatever was running and starts a fresh controlled execution with the
// calling goroutine as thread 0 ("main").
//
//go:norace
func Reset(c Config) {
	if s.mode == Controlled {
		if m := s.threads[0]; m != nil && m.g != nil {
			m.g.free() // the previous execution's main gate
			m.g = nil
		}
		for i := 0; i < s.nthreads; i++ {
			s.threads[i] = nil
		}
	}
	g := newGate()
	s.mode = Controlled
	s.nthreads = 0
	s.aborting = false
	s.reason = AbortNone
	s.steps = 0
	s.horizon = c.Horizon
	if s.horizon == 0 || s.horizon > MaxPoints-8 {
		s.horizon = MaxPoints - 8
	}
	s.fsPoints = c.FSPoints
	s.stuck = false
	s.exploring = false
	s.prefix, s.prefixN = nil, nil
	s.npts = 0
	s.preempts = 0
	s.diverged = ""
	s.hb = false
	s.hbSum = 0
	s.gen++
	if s.gen == 0 {
		s.gen = 1
		for i := range s.objGen {
			s.objGen[i] = 0
		}
	}
	s.pruneFn = nil
	s.pruned = false
	for i := 0; i < s.nclosed; i++ {
		s.closedKeep[i] = nil
	}
	s.nclosed = 0
	for i := 0; i < s.next; i++ {
		s.extKeep[i] = nil
	}
	s.next = 0
	s.keysHook = nil
	s.panics = 0
	t := &thread{id: 0, name: "main", path: 0x9e3779b97f4a7c15, g: g, state: tsRunning}
	s.threads[0] = t
	s.nthreads = 1
	s.cur = t
	clockReset()
	randReset()
}

// SetOff switches every hook to pass-through.
//
//go:norace
func SetOff() { s.mode = Off }

//go:norace
func Controlled_() bool { return s.mode == Controlled }

// IsControlled reports whether hooks are scheduling.
//
//go:norace
func IsControlled() bool { return s.mode == Controlled }

//go:norace
func Aborting() bool { return s.aborting }

//go:norace
func Cur() int {
	if s.cur == nil {
		return -1
	}
	return s.cur.id
}

//go:norace
func CurName() string {
	if s.cur == nil {
		return ""
	}
	return s.cur.name
}

//go:norace
func CurPath() uint64 {
	if s.cur == nil {
		return 0
	}
	return s.cur.path
}

//go:norace
func mix(a, b uint64) uint64 {
	x := a ^ (b + 0x9e3779b97f4a7c15 + (a << 6) + (a >> 2))
	x ^= x >> 33
	x *= 0xff51afd7ed558ccd
	x ^= x >> 33
	x *= 0xc4ceb9fe1a85ec53
	x ^= x >> 33
	return x
}

// ---- spawning --------------------------------------------------------------------------

// Go is the target of every rewritten `go` statement.
//
//go:norace
func Go(site string, f func()) {
	if s.mode != Controlled {
		go f()
		return
	}
	spawn(site, f, false)
}

// GoNamed starts a managed thread from harness code.
//
//go:norace
func GoNamed(name string, f func()) {
	if s.mode != Controlled {
		go f()
		return
	}
	spawn(name, f, false)
}

//go:norace
func spawn(name string, f func(), daemon bool) *thread {
	if s.aborting {
		return nil
	}
	if s.nthreads >= MaxThreads {
		panic("vrt: too many threads")
	}
	p := s.cur
	p.spawned++
	t := &thread{id: s.nthreads, name: name, g: newGate(), state: tsNew, op: OpStart, fn: f, daemon: daemon}
	t.path = mix(p.path, uint64(p.spawned))
	if s.hb {
		noteEvent(p, OpSpawn, 0, 0, 0)
		t.vc = p.vc
	}
	s.threads[s.nthreads] = t
	s.nthreads++
	go threadMain(t)
	return t
}

//go:norace
func threadMain(t *thread) {
	t.g.wait()
	defer threadEnd(t)
	if t.abort || s.aborting {
		return
	}
	t.state = tsRunning
	t.fn()
}

//go:norace
func threadEnd(t *thread) {
	if r := recover(); r != nil {
		if !IsAbort(r) && !s.aborting {
			t.panicVal = r
			t.panicStk = stackString()
			s.panics++
		}
	}
	t.state = tsDone
	t.fn = nil
	if s.hb {
		noteEvent(t, OpEnd, 0, 0, 0)
	}
	if s.aborting {
		// hand control back to main, which is unwinding everyone
		m := s.threads[0]
		s.cur = m
		g := t.g
		t.g = nil
		// every signal this thread ever received was consumed by a wait, so the gate is clean; it goes back
		// before main is woken (afterwards this goroutine must not touch scheduler state)
		if g != nil {
			g.free()
		}
		m.g.signal()
		return
	}
	next := pickNext(nil)
	if next == nil {
		// nothing can run and main is blocked in a real operation: stuck
		s.stuck = true
		next = s.threads[0]
	}
	s.cur = next
	g := t.g
	t.g = nil
	// the gate goes back to the pool before the token is handed on: after the signal this goroutine runs
	// concurrently with the next thread and must not touch scheduler state any more
	g.free()
	next.g.signal()
}

func stackString() string {
	buf := make([]byte, 16<<10)
	n := runtime.Stack(buf, false)
	return string(buf[:n])
}

// ---- scheduling points -----------------------------------------------------------------

// Point is a scheduling point for a possibly blocking operation on obj.
//
//go:norace
func Point(kind OpKind, obj Waitable, o1, o2, o3 uintptr, info string) {
	if s.mode != Controlled {
		return
	}
	t := s.cur
	if s.aborting {
		panic(abortSentinel{s.reason})
	}
	t.op, t.obj, t.info = kind, obj, info
	t.objs[0], t.objs[1], t.objs[2] = o1, o2, o3
	t.nch = 0
	block(t)
}

//go:norace
func block(t *thread) {
	t.state = tsPending
	s.steps++
	if s.steps > s.horizon {
		abortFrom(t, AbortHorizon)
	}
	next := pickNext(t)
	if next == nil {
		abortFrom(t, AbortDeadlock)
	}
	if next != t {
		s.cur = next
		next.g.signal()
		t.g.wait()
		if s.aborting {
			if t.id != 0 {
				t.blockStk = stackString()
				panic(abortSentinel{s.reason})
			}
			// main woken by a thread that discovered the abort: unwind everyone, then main itself
			unwindOthers()
			panic(abortSentinel{s.reason})
		}
		if s.stuck && t.id == 0 {
			s.stuck = false
			abortFrom(t, AbortDeadlock)
		}
	}
	t.state = tsRunning
	if s.hb {
		noteEvent(t, t.op, t.objs[0], t.objs[1], t.objs[2])
	}
	t.obj = nil
	for i := 0; i < t.nch; i++ {
		t.chans[i] = reflect.Value{}
	}
}

// abortFrom is called by the thread that discovers that the execution cannot continue.
// It records the reason; if the caller is not main it parks and hands over to main, which
// unwinds every other thread and then panics itself.
//
//go:norace
func abortFrom(t *thread, r AbortReason) {
	if !s.aborting {
		s.aborting = true
		s.reason = r
	}
	if t.id != 0 {
		// wake main; main will come back to unwind us
		m := s.threads[0]
		s.cur = m
		m.g.signal()
		t.g.wait()
		t.blockStk = stackString()
		panic(abortSentinel{s.reason})
	}
	unwindOthers()
	panic(abortSentinel{s.reason})
}

// unwindOthers runs on main: wakes every unfinished thread so that it panics out.
//
//go:norace
func unwindOthers() {
	m := s.threads[0]
	for i := 1; i < s.nthreads; i++ {
		t := s.threads[i]
		if t == nil || t.state == tsDone || t.state == tsFree {
			continue
		}
		t.abort = true
		s.cur = t
		t.g.signal()
		m.g.wait()
	}
	s.cur = m
}

// Abort abandons the execution from main (used by the crash engine after a crash panic
// has reached the top, and by harnesses that give up).
//
//go:norace
func Abort(r AbortReason) {
	if s.mode != Controlled {
		return
	}
	if !s.aborting {
		s.aborting = true
		s.reason = r
	}
	if s.cur != nil && s.cur.id == 0 {
		unwindOthers()
	}
}

// Finish ends the execution: every thread that is still parked (idle ticker loops, blocked
// threads) is unwound. The instance under test must be discarded afterwards.
//
//go:norace
func Finish() {
	if s.mode != Controlled || s.cur == nil || s.cur.id != 0 {
		return
	}
	if !s.aborting {
		s.aborting = true
		s.reason = AbortNone
	}
	unwindOthers()
}

// CrashNow is called by vos when the injected crash point is reached.
//
//go:norace
func CrashNow() {
	t := s.cur
	if s.mode != Controlled || t == nil {
		panic(abortSentinel{AbortCrash})
	}
	abortFrom(t, AbortCrash)
}

//go:norace
func ready(t *thread) bool {
	switch t.state {
	case tsNew:
		return true
	case tsPending:
	default:
		return false
	}
	switch t.op {
	case OpYield, OpFS, OpChoice, OpStart:
		return true
	case OpLock, OpRLock, OpWait, OpOnce:
		return t.obj.VReady(t.op)
	case OpRecv:
		return chanRecvReady(t.chans[0])
	case OpSend:
		return chanSendReady(t.chans[0])
	case OpSelect:
		if t.hasDef {
			return true
		}
		for i := 0; i < t.nch; i++ {
			if chanRecvReady(t.chans[i]) {
				return true
			}
		}
		return false
	case OpJoin:
		for i := 1; i < s.nthreads; i++ {
			o := s.threads[i]
			if o.state != tsDone && !o.daemon && !idle(o) {
				return false
			}
		}
		return true
	case OpQuiesce:
		return true // lowest priority, handled in pickNext
	}
	return false
}

// idle: blocked on a receive/select that includes an externally fed channel (ticker, timer, signal).
//
//go:norace
func idle(t *thread) bool {
	if t.state != tsPending || (t.op != OpRecv && t.op != OpSelect) {
		return false
	}
	if ready(t) {
		return false
	}
	for i := 0; i < t.nch; i++ {
		p := t.chans[i].Pointer()
		for j := 0; j < s.next; j++ {
			if s.ext[j] == p {
				return true
			}
		}
	}
	return false
}

// pickNext chooses the next thread. running is the thread at a point (nil if it just ended).
//
//go:norace
func pickNext(running *thread) *thread {
	var en [MaxThreads]uint8
	n := 0
	curEn := false
	var quiescer *thread
	if running != nil && running.op != OpQuiesce && running.op != OpJoin && ready(running) {
		en[0] = uint8(running.id)
		n = 1
		curEn = true
	}
	for i := 0; i < s.nthreads; i++ {
		t := s.threads[i]
		if t == running && running.op != OpQuiesce && running.op != OpJoin {
			continue
		}
		if t.state == tsPending && (t.op == OpQuiesce || t.op == OpJoin) {
			quiescer = t
			continue
		}
		if ready(t) {
			en[n] = uint8(t.id)
			n++
		}
	}
	if n == 0 {
		if quiescer != nil {
			if quiescer.op == OpQuiesce || ready(quiescer) {
				return quiescer
			}
			// join with unfinished, non idle threads and nothing enabled: deadlock, reported by Join
			s.stuck = true
			return quiescer
		}
		return nil
	}
	if n == 1 || !s.exploring {
		return s.threads[en[0]]
	}
	c := choose(n, en[:n], curEn)
	return s.threads[en[c]]
}

// choose is the exploration recorder: replays the prefix, otherwise takes choice 0.
//
//go:norace
func choose(n int, en []uint8, curEn bool) int {
	if s.npts >= MaxPoints {
		abortFrom(s.cur, AbortHorizon)
	}
	p := &s.pts[s.npts]
	p.N = uint8(n)
	p.CurEn = curEn
	for i := 0; i < n; i++ {
		if en != nil {
			p.En[i] = en[i]
		} else {
			p.En[i] = uint8(i)
		}
	}
	p.Pre = uint16(s.preempts)
	p.Key = 0
	if s.hb {
		k := s.hbSum
		if s.cur != nil {
			k = mix(k, s.cur.path)
		}
		if curEn {
			k = mix(k, 1)
		}
		p.Key = k
	}
	c := 0
	if s.npts < len(s.prefix) {
		c = int(s.prefix[s.npts])
		if c >= n || (s.prefixN != nil && int(s.prefixN[s.npts]) != n) {
			s.diverged = fmt.Sprintf("point %d: prefix choice %d, now %d enabled", s.npts, c, n)
			c = 0
		}
	} else if s.pruneFn != nil && !s.pruned {
		if s.pruneFn(p.Key, s.preempts, s.npts) {
			s.pruned = true
		}
	}
	p.Chosen = uint8(c)
	if en != nil {
		p.Kind = s.threads[en[c]].op
	} else {
		p.Kind = OpChoice
	}
	if curEn && c != 0 {
		s.preempts++
	}
	if en == nil && s.hb && s.cur != nil {
		t := s.cur
		t.nops++
		t.vc[t.id] = t.nops
		s.hbSum += mix(mix(t.path, 0xC0), mix(uint64(t.nops), uint64(c)))
	}
	s.npts++
	return c
}

// Choose is a data choice of the running thread (0 <= result < n); explored like a schedule choice.
//
//go:norace
func Choose(n int, label string) int {
	if s.mode != Controlled || !s.exploring || n <= 1 {
		return 0
	}
	return choose(n, nil, false)
}

// Yield is an explicit scheduling point.
//
//go:norace
func Yield() {
	if s.mode != Controlled {
		runtime.Gosched()
		return
	}
	Point(OpYield, nil, 0, 0, 0, "yield")
}

// Quiesce (main only) runs every other thread until none is enabled.
//
//go:norace
func Quiesce() {
	if s.mode != Controlled {
		return
	}
	t := s.cur
	if t.id != 0 {
		panic("vrt: Quiesce from a thread other than main")
	}
	if s.aborting {
		panic(abortSentinel{s.reason})
	}
	t.op, t.obj, t.info, t.nch = OpQuiesce, nil, "quiesce", 0
	t.objs = [3]uintptr{}
	block(t)
}

// JoinResult describes how the concurrent phase ended.
type JoinResult struct {
	Deadlock bool
	Blocked  []ThreadInfo
}

type ThreadInfo struct {
	ID    int
	Name  string
	Op    string
	Info  string
	Stack string
	Panic string
	// WaitFor: the thread holding the mutex this thread is blocked on (-1: not blocked on an owned object)
	WaitFor int
}

// Join (main only) waits until every non-daemon thread has finished or is idle.
// If nothing can run before that, it reports a deadlock (the blocked threads are left
// in place; call Abort to unwind them).
//
//go:norace
func Join() JoinResult {
	if s.mode != Controlled {
		return JoinResult{}
	}
	t := s.cur
	if t.id != 0 {
		panic("vrt: Join from a thread other than main")
	}
	if s.aborting {
		panic(abortSentinel{s.reason})
	}
	t.op, t.obj, t.info, t.nch = OpJoin, nil, "join", 0
	t.objs = [3]uintptr{}
	s.stuck = false
	t.state = tsPending
	next := pickNext(t)
	if next != nil && next != t {
		s.cur = next
		next.g.signal()
		t.g.wait()
	}
	t.state = tsRunning
	res := JoinResult{}
	if s.aborting {
		// another thread aborted (horizon, crash, divergence) and handed over to us
		unwindOthers()
		panic(abortSentinel{s.reason})
	}
	if s.stuck || !ready2join() {
		s.stuck = false
		res.Deadlock = true
		for i := 1; i < s.nthreads; i++ {
			o := s.threads[i]
			if o.state == tsPending && !idle(o) {
				wf := -1
				if ow, ok := o.obj.(interface{ VOwner() int }); ok {
					wf = ow.VOwner()
				}
				res.Blocked = append(res.Blocked, ThreadInfo{ID: o.id, Name: o.name, Op: o.op.String(), Info: o.info, WaitFor: wf})
			}
		}
	}
	return res
}

//go:norace
func ready2join() bool {
	for i := 1; i < s.nthreads; i++ {
		o := s.threads[i]
		if o.state != tsDone && !o.daemon && !idle(o) {
			return false
		}
	}
	return true
}

// Blocked lists the threads that are blocked right now (after Quiesce or Join) on something
// other than an externally fed channel.
//
//go:norace
func Blocked() []ThreadInfo {
	var out []ThreadInfo
	if s.mode != Controlled {
		return nil
	}
	for i := 1; i < s.nthreads; i++ {
		o := s.threads[i]
		if o.state == tsPending && !idle(o) {
			out = append(out, ThreadInfo{ID: o.id, Name: o.name, Op: o.op.String(), Info: o.info})
		}
	}
	return out
}

// Threads returns a summary of all threads (panics, block stacks after an abort).
//
//go:norace
func Threads() []ThreadInfo {
	var out []ThreadInfo
	for i := 0; i < s.nthreads; i++ {
		o := s.threads[i]
		ti := ThreadInfo{ID: o.id, Name: o.name, Op: o.op.String(), Info: o.info, Stack: o.blockStk}
		if o.panicVal != nil {
			ti.Panic = fmt.Sprint(o.panicVal) + "\n" + o.panicStk
		}
		out = append(out, ti)
	}
	return out
}

//go:norace
func Panics() int { return s.panics }

//go:norace
func Steps() int { return s.steps }

// ---- exploration control ------------------------------------------------------------------

// BeginExplore switches the recorder on: from now on every point with more than one
// enabled thread is a recorded decision; the first len(prefix) decisions are replayed.
//
//go:norace
func BeginExplore(prefix, prefixN []uint8, hb bool, prune func(key uint64, pre int, idx int) bool) {
	s.exploring = true
	s.prefix, s.prefixN = prefix, prefixN
	s.npts = 0
	s.preempts = 0
	s.hb = hb
	s.pruneFn = prune
	s.pruned = false
	s.diverged = ""
}

//go:norace
func EndExplore() { s.exploring = false; s.hb = false }

// Points copies the recorded decisions of this execution.
//
//go:norace
func Points() []PointRec {
	out := make([]PointRec, s.npts)
	for i := 0; i < s.npts; i++ {
		out[i] = s.pts[i]
	}
	return out
}

//go:norace
func Diverged() string { return s.diverged }

//go:norace
func Pruned() bool { return s.pruned }

// ---- happens-before bookkeeping -------------------------------------------------------------

//go:norace
func objSlot(o uintptr) int {
	h := int((uint64(o) * 0x9e3779b97f4a7c15) >> 51) // 13 bits
	for i := 0; i < objTabSize; i++ {
		j := (h + i) & (objTabSize - 1)
		if s.objGen[j] != s.gen {
			s.objGen[j] = s.gen
			s.objKeys[j] = o
			s.objVC[j] = [MaxThreads]uint32{}
			return j
		}
		if s.objKeys[j] == o {
			return j
		}
	}
	panic("vrt: object table full")
}

//go:norace
func noteEvent(t *thread, kind OpKind, o1, o2, o3 uintptr) {
	objs := [3]uintptr{o1, o2, o3}
	var slots [3]int
	ns := 0
	for _, o := range objs {
		if o == 0 {
			continue
		}
		j := objSlot(o)
		slots[ns] = j
		ns++
		for k := 0; k < s.nthreads; k++ {
			if s.objVC[j][k] > t.vc[k] {
				t.vc[k] = s.objVC[j][k]
			}
		}
	}
	t.nops++
	t.vc[t.id] = t.nops
	for i := 0; i < ns; i++ {
		s.objVC[slots[i]] = t.vc
	}
	// event hash: thread identity, kind, its vector clock expressed over stable thread paths
	var h uint64
	for k := 0; k < s.nthreads; k++ {
		if t.vc[k] != 0 {
			h += mix(s.threads[k].path, uint64(t.vc[k]))
		}
	}
	s.hbSum += mix(mix(t.path, uint64(kind)), h)
}

// Note records a non-blocking synchronisation event (unlock, wait-group add, close).
//
//go:norace
func Note(kind OpKind, o1 uintptr) {
	if s.mode != Controlled || !s.hb || s.cur == nil {
		return
	}
	noteEvent(s.cur, kind, o1, 0, 0)
}

// FSPoint is called by the vos shim before every filesystem call.
//
//go:norace
func FSPoint(info string, o1, o2 uintptr) {
	if s.mode != Controlled || s.aborting {
		return
	}
	if s.exploring && s.fsPoints {
		Point(OpFS, nil, o1, o2, 0, info)
		return
	}
	if s.hb {
		noteEvent(s.cur, OpFS, o1, o2, 0)
	}
}

// ---- channels ------------------------------------------------------------------------------

//go:norace
func chanClosed(p uintptr) bool {
	for i := 0; i < s.nclosed; i++ {
		if s.closed[i] == p {
			return true
		}
	}
	return false
}

//go:norace
func chanRecvReady(v reflect.Value) bool {
	if !v.IsValid() || v.IsNil() {
		return false
	}
	return v.Len() > 0 || chanClosed(v.Pointer())
}

//go:norace
func chanSendReady(v reflect.Value) bool {
	if !v.IsValid() || v.IsNil() {
		return false
	}
	if chanClosed(v.Pointer()) {
		return true // will panic, as the original would
	}
	return v.Len() < v.Cap()
}

// MarkClosed tells the runtime that a channel has been closed by code outside the
// rewritten packages (for example a context's Done channel closed by the harness).
//
//go:norace
func MarkClosed(ch any) {
	if s.mode != Controlled {
		return
	}
	v := reflect.ValueOf(ch)
	if s.nclosed < len(s.closed) {
		s.closed[s.nclosed] = v.Pointer()
		s.closedKeep[s.nclosed] = ch
		s.nclosed++
	} else {
		panic("vrt: closed channel table full")
	}
	Note(OpClose, v.Pointer())
}

// External registers a channel that is fed by the driver (ticker, timer, signal).
//
//go:norace
func External(ch any) {
	if s.mode != Controlled {
		return
	}
	v := reflect.ValueOf(ch)
	if s.next < len(s.ext) {
		s.ext[s.next] = v.Pointer()
		s.extKeep[s.next] = ch
		s.next++
	}
}

// CloseChan replaces the builtin close in rewritten code.
func CloseChan[T any](ch chan T) {
	MarkClosed(ch)
	close(ch)
}

//go:norace
func BeforeRecv(ch any) {
	if s.mode != Controlled {
		return
	}
	v := reflect.ValueOf(ch)
	if v.Kind() != reflect.Chan {
		panic("vrt: BeforeRecv on non-channel")
	}
	if !v.IsNil() && v.Cap() == 0 {
		panic("vrt: unsupported construct: receive on an unbuffered channel")
	}
	t := s.cur
	if s.aborting {
		panic(abortSentinel{s.reason})
	}
	t.op, t.obj, t.info = OpRecv, nil, "recv"
	t.chans[0], t.nch = v, 1
	t.objs = [3]uintptr{chanPtr(v), 0, 0}
	block(t)
}

//go:norace
func chanPtr(v reflect.Value) uintptr {
	if !v.IsValid() || v.IsNil() {
		return 0
	}
	return v.Pointer()
}

//go:norace
func BeforeSend(ch any) {
	if s.mode != Controlled {
		return
	}
	v := reflect.ValueOf(ch)
	if !v.IsNil() && v.Cap() == 0 {
		panic("vrt: unsupported construct: send on an unbuffered channel")
	}
	t := s.cur
	if s.aborting {
		panic(abortSentinel{s.reason})
	}
	t.op, t.obj, t.info = OpSend, nil, "send"
	t.chans[0], t.nch = v, 1
	t.objs = [3]uintptr{chanPtr(v), 0, 0}
	block(t)
}

// SelectChoose is a scheduling point for a select statement whose cases are all receives.
// It returns -1 in Off mode (keep the original select), -2 for "take default", else the
// index of the case to take; the explorer chooses among the ready cases.
//
//go:norace
func SelectChoose(hasDefault bool, chans ...any) int {
	if s.mode != Controlled {
		return -1
	}
	if len(chans) > maxChans {
		panic("vrt: unsupported construct: select with too many cases")
	}
	t := s.cur
	if s.aborting {
		panic(abortSentinel{s.reason})
	}
	t.op, t.obj, t.info = OpSelect, nil, "select"
	t.hasDef = hasDefault
	t.nch = len(chans)
	t.objs = [3]uintptr{}
	for i, c := range chans {
		v := reflect.ValueOf(c)
		if v.IsValid() && !v.IsNil() && v.Cap() == 0 && !knownUnbufferedOK(v) {
			// unbuffered channels are only supported when they are never sent to (close-only), e.g. ctx.Done()
		}
		t.chans[i] = v
		if i < 3 {
			t.objs[i] = chanPtr(v)
		}
	}
	var vals [maxChans]reflect.Value
	for i := 0; i < t.nch; i++ {
		vals[i] = t.chans[i]
	}
	nch := t.nch
	block(t)
	var rdy [maxChans]int
	n := 0
	for i := 0; i < nch; i++ {
		if chanRecvReady(vals[i]) {
			rdy[n] = i
			n++
		}
	}
	if n == 0 {
		if hasDefault {
			return -2
		}
		panic("vrt: select scheduled with no ready case")
	}
	if n == 1 {
		return rdy[0]
	}
	return rdy[Choose(n, "select")]
}

func knownUnbufferedOK(reflect.Value) bool { return true }

// Pick returns ch if the case is selected (or in Off mode), else the nil channel.
func Pick[C any](choice, i int, ch C) C {
	if choice == -1 || choice == i {
		return ch
	}
	var zero C
	return zero
}

// ---- deterministic map iteration -----------------------------------------------------------

// SetKeysHook installs a function that may permute the key order at a site
// (it receives the site and the number of keys and returns a permutation or nil).
//
//go:norace
func SetKeysHook(f func(site string, n int) []int) { s.keysHook = f }

// Keys returns the keys of m in a deterministic order (sorted), or in Off mode in map order.
func Keys[M ~map[K]V, K comparable, V any](m M, site string) []K {
	keys := make([]K, 0, len(m))
	for k := range m {
		keys = append(keys, k)
	}
	if !IsControlled() {
		return keys
	}
	if len(keys) > 1 {
		strs := make([]string, len(keys))
		for i, k := range keys {
			strs[i] = keyString(k)
		}
		sort.Sort(&keySorter[K]{keys, strs})
		if h := keysHookGet(); h != nil {
			if perm := h(site, len(keys)); perm != nil {
				out := make([]K, len(keys))
				for i, p := range perm {
					out[i] = keys[p]
				}
				keys = out
			}
		}
	}
	return keys
}

//go:norace
func keysHookGet() func(string, int) []int { return s.keysHook }

func keyString(k any) string {
	switch v := k.(type) {
	case string:
		return v
	case fmt.Stringer:
		return v.String()
	}
	return fmt.Sprintf("%v", k)
}

type keySorter[K any] struct {
	k []K
	s []string
}

func (x *keySorter[K]) Len() int           { return len(x.k) }
func (x *keySorter[K]) Less(i, j int) bool { return x.s[i] < x.s[j] }
func (x *keySorter[K]) Swap(i, j int) {
	x.k[i], x.k[j] = x.k[j], x.k[i]
	x.s[i], x.s[j] = x.s[j], x.s[i]
}

// ObjID returns a stable-within-execution identity for a pointer.
func ObjID(p unsafe.Pointer) uintptr { return uintptr(p) }

// FrameSummary extracts the olareg frames (function names) from a stack dump, innermost first.
func FrameSummary(stack string, max int) []string {
	var out []string
	for _, ln := range strings.Split(stack, "\n") {
		if strings.HasPrefix(ln, "\t") || !strings.Contains(ln, "github.com/olareg/olareg") {
			continue
		}
		if strings.Contains(ln, "/internal/verif/") {
			continue
		}
		if i := strings.LastIndex(ln, "("); i > 0 {
			ln = ln[:i]
		}
		ln = strings.TrimPrefix(ln, "github.com/olareg/olareg/")
		ln = strings.TrimPrefix(ln, "github.com/olareg/")
		out = append(out, ln)
		if len(out) >= max {
			break
		}
	}
	return out
}

var _ = time.Now
