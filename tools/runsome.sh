#!/bin/bash
# tools/runsome.sh <tier> <Cxx>...: like runall.sh for the named checks
cd "$(dirname "$0")/.."
tier="$1"; shift
for id in "$@"; do
  start=$(date +%s)
  out=$(./run "$id" "$tier" 2>&1); rc=$?
  end=$(date +%s)
  echo "$id rc=$rc $((end-start))s $(echo "$out" | grep -c '^VIOLATION') violations, $(echo "$out" | grep -c '^KNOWN-FINDING') known | $(echo "$out" | tail -1 | cut -c1-160)"
  echo "$out" | grep -A3 '^VIOLATION' | cut -c1-400
done
