package checks

import (
	"encoding/json"
	"fmt"
	"strings"
	"syscall"
	"time"

	"github.com/olareg/olareg/config"
	"github.com/olareg/olareg/internal/verif/h"
	"github.com/olareg/olareg/internal/verif/vos"
	"github.com/olareg/olareg/internal/verif/vrt"
)

// C05, transient read failures (directory store): a repository with a tagged image, a tagged index over two images and
// an artifact is on disk; a new process serves it. Every read-side filesystem call (stat, open, readdir, readfile and
// every read of an open file) of the script [list the tags, collection tick, advance past the grace period, two more
// ticks] fails once with EIO - a transient error, the next call succeeds. Whatever the failing request or pass answers,
// a collection must never remove what the policy retains: at the end a fresh process on the same directory serves
// everything the model's must-retain set holds.

type c05ReadFaultOut struct {
	Viol   []h.Violation `json:"viol"`
	Points int           `json:"points"`
	Runs   int           `json:"runs"`
	Sample []string      `json:"sample"`
}

func c05ReadFaultPolicies() []GCPolicy {
	return []GCPolicy{
		{Untagged: true, Dangling: true, WithSubj: true, EmptyRepo: true, Grace: time.Hour, Freq: 15 * time.Minute},
		{Untagged: true, Dangling: true, WithSubj: true, EmptyRepo: true, Grace: -1, Freq: 15 * time.Minute},
	}
}

func c05ReadFaultJob(pi int) (out c05ReadFaultOut) {
	f := gcFix()
	pol := c05ReadFaultPolicies()[pi]
	const repo = "r"
	conf := &h.Conf{Name: "dir", Store: "dir", Mod: func(c *config.Config) { pol.Apply(c) }}
	prepare := func(w *h.World) {
		w.M = NewMRegFix(f)
		vrt.Advance(67*time.Second, false)
		gcPushMacro(w, f, repo, "I1", "t1")
		gcPushMacro(w, f, repo, "X", "x")
		gcPushMacro(w, f, repo, "A1", "")
		// a new process on the directory (no Close: nothing is collected on the way)
		w.ReopenNoClose()
		w.AutoViol = nil
	}
	script := func(w *h.World) {
		w.Tags(repo, "")
		gcTick(w)
		adv := time.Hour + 12*time.Minute + 29*time.Second
		vrt.Advance(adv, false)
		gcTick(w)
		gcTick(w)
	}
	// dry run: number the read-side calls of the script
	var reads []vos.Op
	func() {
		w := h.NewWorld(conf, vrt.Config{})
		defer w.Destroy()
		prepare(w)
		vos.FailReadAt(1<<30, syscall.EIO) // arms the counting of File.Read as in the faulted runs
		base, logBase := vos.ReadCount(), vos.LogLen()
		script(w)
		out.Points = vos.ReadCount() - base
		for _, o := range vos.Log()[logBase:] {
			if !o.Mut {
				reads = append(reads, o)
			}
		}
	}()
	for k := 1; k <= out.Points; k++ {
		func() {
			w := h.NewWorld(conf, vrt.Config{})
			defer w.Destroy()
			what := fmt.Sprintf("read-side filesystem call %d of [list tags, tick, advance past grace, tick, tick] fails once with EIO", k)
			hung := false
			func() {
				defer func() {
					if p := recover(); p != nil {
						if !vrt.IsAbort(p) {
							panic(p)
						}
						hung = true
					}
				}()
				prepare(w)
				vos.FailReadAt(vos.ReadCount()+k, syscall.EIO)
				script(w)
			}()
			out.Runs++
			var vs []h.Violation
			if hung {
				sig, detail := h.AbortSignature()
				vs = append(vs, h.V("no-hang-after-read-error", "hang:"+sig, "after a transient read error the registry never returns: %s", detail))
			} else {
				for _, v := range w.AutoViol {
					if strings.HasPrefix(v.Sig, "panic") {
						vs = append(vs, v)
					}
				}
				w.AutoViol = nil
				// judged on a fresh process: what the collections removed is gone from the directory
				w.ReopenNoClose()
				regM(w).Repo(repo).Collected(f, pol)
				vs = append(vs, CheckRetained(w, f, regM(w).Repo(repo), repo, pol)...)
			}
			for _, v := range vs {
				v.Conf = "c05-read-fault-dir-" + pol.Name()
				v.History = []string{what}
				v.Sig = "after-transient-read-error:" + v.Sig
				out.Viol = append(out.Viol, v)
			}
			if len(out.Sample) < 2 {
				out.Sample = append(out.Sample, what)
			}
		}()
	}
	_ = reads
	return out
}

func init() {
	h.RegisterJob("c05readfault", func(arg json.RawMessage) (any, error) {
		var pi int
		if err := json.Unmarshal(arg, &pi); err != nil {
			return nil, err
		}
		return c05ReadFaultJob(pi), nil
	})
}

// c05ReadFaults runs the family and adds its results to the report of C05.
func c05ReadFaults(rep *h.Report) {
	rep.Rule += "; transient read failures (directory store, two policies): every read-side filesystem call of [list tags, tick, advance past the grace period, tick, tick] on a freshly started process fails once with EIO; afterwards a fresh process must serve the whole must-retain set"
	pool := h.NewPool(2)
	defer pool.Close()
	var jobs []h.Job
	for i := range c05ReadFaultPolicies() {
		jobs = append(jobs, h.MkJob("c05readfault", i))
	}
	points, runs := 0, 0
	for _, jr := range pool.Run(jobs, nil) {
		if jr.Died || jr.Error != "" {
			rep.Infra("c05 read-fault worker: %s\n%s", jr.Error, jr.Log)
			continue
		}
		var o c05ReadFaultOut
		if err := json.Unmarshal(jr.Out, &o); err != nil {
			rep.Infra("decode: %v", err)
			continue
		}
		for _, v := range o.Viol {
			rep.AddViolation(v)
		}
		points += o.Points
		runs += o.Runs
		rep.Evals += o.Runs
		rep.Traces += o.Runs
		rep.Trans += o.Runs
	}
	rep.Parts = append(rep.Parts, map[string]any{"part": "transient-read-faults", "read_points": points, "faulted_runs": runs})
}
