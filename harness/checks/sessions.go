package checks

import (
	"crypto/sha256"
	"crypto/sha512"
	"encoding/base64"
	"encoding/hex"
	"fmt"
	"net/url"
	"os"
	"path/filepath"
	"reflect"
	"sort"
	"strings"
	"unsafe"

	"github.com/olareg/olareg/internal/verif/h"
)

// Upload session bookkeeping shared by C01 and C08.

type Sess struct {
	Slot   string
	Repo   string
	ID     string
	Path   string // upload URL path
	State  string // state token of the last Location
	Bytes  []byte // bytes the server has acknowledged
	Open   bool   // per the model
	Alg    string // algorithm requested at creation ("" = default)
	Expect string // digest declared at creation (mount)
}

type SessModel struct {
	S     map[string]*Sess
	Blobs map[string]map[string]string // repo -> digest -> content, acknowledged uploads
	Order []string                     // slots in order of creation (for eviction expectations)
}

func NewSessModel() *SessModel {
	return &SessModel{S: map[string]*Sess{}, Blobs: map[string]map[string]string{}}
}

func (m *SessModel) String() string {
	var parts []string
	for _, k := range h.SortedKeys(m.S) {
		s := m.S[k]
		parts = append(parts, fmt.Sprintf("%s:%s:%v:%q:%s:%s", k, s.Repo, s.Open, s.Bytes, s.Alg, s.Expect))
	}
	for _, r := range h.SortedKeys(m.Blobs) {
		for _, d := range h.SortedKeys(m.Blobs[r]) {
			parts = append(parts, r+"/"+d)
		}
	}
	return strings.Join(parts, ";") + "|" + strings.Join(m.Order, ",")
}

func (m *SessModel) AddBlob(repo, dig, content string) {
	if m.Blobs[repo] == nil {
		m.Blobs[repo] = map[string]string{}
	}
	m.Blobs[repo][dig] = content
}

func sessM(w *h.World) *SessModel { return w.M.(*SessModel) }

func hashHex(alg string, b []byte) string {
	switch alg {
	case "sha256":
		s := sha256.Sum256(b)
		return hex.EncodeToString(s[:])
	case "sha384":
		s := sha512.Sum384(b)
		return hex.EncodeToString(s[:])
	case "sha512":
		s := sha512.Sum512(b)
		return hex.EncodeToString(s[:])
	}
	return ""
}

func dg(alg string, b []byte) string { return alg + ":" + hashHex(alg, b) }

// digestMatches reports whether dig is well formed for a supported algorithm and is the hash of b.
func digestMatches(dig string, b []byte) bool {
	alg, hx, ok := strings.Cut(dig, ":")
	if !ok {
		return false
	}
	want := hashHex(alg, b)
	return want != "" && want == hx
}

// parseLocation splits an upload Location into path and state token.
func parseLocation(loc string) (path, state string) {
	u, err := url.Parse(loc)
	if err != nil {
		return "", ""
	}
	return u.Path, u.Query().Get("state")
}

func stateToken(offset int) string {
	return base64.RawURLEncoding.EncodeToString([]byte(fmt.Sprintf(`{"offset":%d}`, offset)))
}

// openSession issues POST /blobs/uploads/ and records the session in slot.
func openSession(w *h.World, slot, repo, query string) (h.Resp, *Sess) {
	r := w.Do(h.Req{Method: "POST", Path: "/v2/" + repo + "/blobs/uploads/", Query: query})
	if r.Status != 202 {
		return r, nil
	}
	p, st := parseLocation(r.H.Get("Location"))
	id := p[strings.LastIndex(p, "/")+1:]
	s := &Sess{Slot: slot, Repo: repo, ID: id, Path: p, State: st, Open: true}
	w.Slots[slot] = id
	m := sessM(w)
	m.S[slot] = s
	m.Order = append(m.Order, slot)
	return r, s
}

// memBlobs extracts (repo, digest, bytes) of every blob held by a memory store, through reflection.
func storeBlobsMem(w *h.World) map[string][]byte {
	out := map[string][]byte{}
	sv := reflect.ValueOf(w.S).Elem().FieldByName("store")
	sv = reflect.NewAt(sv.Type(), unsafe.Pointer(sv.UnsafeAddr())).Elem()
	if sv.IsNil() {
		return out
	}
	st := sv.Elem()
	if st.Kind() != reflect.Ptr || st.Elem().Type().Name() != "mem" {
		return out
	}
	repos := st.Elem().FieldByName("repos")
	repos = reflect.NewAt(repos.Type(), unsafe.Pointer(repos.UnsafeAddr())).Elem()
	it := repos.MapRange()
	for it.Next() {
		rname := it.Key().String()
		mr := it.Value().Elem()
		blobs := mr.FieldByName("blobs")
		blobs = reflect.NewAt(blobs.Type(), unsafe.Pointer(blobs.UnsafeAddr())).Elem()
		bi := blobs.MapRange()
		for bi.Next() {
			if bi.Value().IsNil() {
				continue
			}
			b := bi.Value().Elem().FieldByName("b")
			b = reflect.NewAt(b.Type(), unsafe.Pointer(b.UnsafeAddr())).Elem()
			out[rname+"/"+bi.Key().String()] = b.Bytes()
		}
	}
	return out
}

// storeBlobsDir lists (relative repo path / digest) -> bytes of every file under blobs/<alg>/.
func storeBlobsDir(root string) map[string][]byte {
	out := map[string][]byte{}
	_ = filepath.Walk(root, func(p string, fi os.FileInfo, err error) error {
		if err != nil || fi.IsDir() {
			return nil
		}
		rel, _ := filepath.Rel(root, p)
		parts := strings.Split(rel, string(filepath.Separator))
		n := len(parts)
		if n >= 4 && parts[n-3] == "blobs" {
			b, _ := os.ReadFile(p)
			out[strings.Join(parts[:n-3], "/")+"/"+parts[n-2]+":"+parts[n-1]] = b
		}
		return nil
	})
	return out
}

// storedBlobsHashCheck: every stored blob hashes to the digest it is stored under.
func storedBlobsHashCheck(w *h.World) []h.Violation {
	var vs []h.Violation
	var all map[string][]byte
	if w.Dir != "" && w.Conf.Store == "dir" {
		all = storeBlobsDir(w.Dir)
	} else {
		all = storeBlobsMem(w)
		if w.Dir != "" {
			for k, v := range storeBlobsDir(w.Dir) {
				all[k] = v
			}
		}
	}
	keys := make([]string, 0, len(all))
	for k := range all {
		keys = append(keys, k)
	}
	sort.Strings(keys)
	for _, k := range keys {
		dig := k[strings.LastIndex(k, "/")+1:]
		if !digestMatches(dig, all[k]) {
			vs = append(vs, h.V("stored-content-hashes-to-name", "stored-blob-hash-mismatch", "stored blob %s holds %q which does not hash to its name", k, clipB(all[k])))
		}
	}
	return vs
}

func clipB(b []byte) string {
	if len(b) > 60 {
		return string(b[:60]) + "…"
	}
	return string(b)
}
