#!/usr/bin/env python3
"""prints a markdown table of what the evidence files report (for DESIGN.md section 7)"""
import json, glob, os
rows = []
for f in sorted(glob.glob(os.path.join(os.path.dirname(__file__), "..", "evidence", "C*.json"))):
    e = json.load(open(f)); c = e["coverage"]
    rows.append("| %s | %s | %s | %d | %d | %d | %d | %s | %.0f |" % (e["property_id"], e["tier"], e["level"], c["states"], c["transitions"], c["traces_validated_against_impl"], c["distinct_nontrivial"],
        "yes" if c["exhaustive"] else "no: " + "; ".join(c["caps_hit"])[:80], e["wall_s"]))
print("| id | tier | level | states | transitions | executions on the implementation | non-trivial | exhaustive within bounds | wall s |")
print("|---|---|---|---|---|---|---|---|---|")
print("\n".join(rows))
