package checks

import (
	"encoding/json"
	"fmt"
	"sort"
	"strings"

	"github.com/opencontainers/go-digest"

	"github.com/olareg/olareg/internal/verif/h"
	"github.com/olareg/olareg/internal/verif/vrt"
	"github.com/olareg/olareg/types"
)

// ---- fixture content ---------------------------------------------------------------------------

// Item is one piece of content of the fixture universe.
type Item struct {
	Name     string
	Manifest bool
	Data     []byte
	MT       string   // media type (manifests: the type pushed; blobs: descriptor type)
	Dig      string   // sha256 digest
	Config   string   // item name
	Layers   []string // item names
	Children []string // item names (index)
	Subject  string   // item name ("" = none); SubjectDig is used when the subject is not an item
	SubjDig  string
	ArtType  string // artifactType expected in the referrers descriptor
	Ann      map[string]string
}

func (it *Item) Desc() h.Desc {
	return h.Desc{MediaType: it.MT, Digest: digest.Digest(it.Dig), Size: int64(len(it.Data))}
}

// Fix is a named set of items with real digests.
type Fix struct {
	Items map[string]*Item
}

func NewFix() *Fix { return &Fix{Items: map[string]*Item{}} }

func (f *Fix) Blob(name, mt string, data []byte) *Item {
	it := &Item{Name: name, Data: data, MT: mt, Dig: h.Dig("sha256", data)}
	f.Items[name] = it
	return it
}

// Image adds an image manifest; subject may be an item name, "sha256:…" or "".
func (f *Fix) Image(name, mt, config string, layers []string, subject, artifactType string, ann map[string]string) *Item {
	it := &Item{Name: name, Manifest: true, MT: mt, Config: config, Layers: layers, Ann: ann}
	var lds []h.Desc
	for _, l := range layers {
		lds = append(lds, f.Items[l].Desc())
	}
	sd := f.subj(it, subject)
	it.Data = h.Image(mt, f.Items[config].Desc(), lds, sd, artifactType, ann)
	it.Dig = h.Dig("sha256", it.Data)
	it.ArtType = artifactType
	if artifactType == "" {
		it.ArtType = f.Items[config].MT
	}
	f.Items[name] = it
	return it
}

func (f *Fix) Index(name, mt string, children []string, subject, artifactType string, ann map[string]string) *Item {
	it := &Item{Name: name, Manifest: true, MT: mt, Children: children, Ann: ann}
	var cds []h.Desc
	for _, c := range children {
		cds = append(cds, f.Items[c].Desc())
	}
	sd := f.subj(it, subject)
	it.Data = h.Index(mt, cds, sd, artifactType, ann)
	it.Dig = h.Dig("sha256", it.Data)
	it.ArtType = artifactType
	f.Items[name] = it
	return it
}

func (f *Fix) subj(it *Item, subject string) *h.Desc {
	if subject == "" {
		return nil
	}
	if strings.HasPrefix(subject, "sha256:") || strings.HasPrefix(subject, "sha512:") {
		it.SubjDig = subject
		return &h.Desc{MediaType: types.MediaTypeOCI1Manifest, Digest: digest.Digest(subject), Size: 123}
	}
	s := f.Items[subject]
	it.Subject = subject
	it.SubjDig = s.Dig
	d := s.Desc()
	return &d
}

func (f *Fix) ByDigest(d string) *Item {
	for _, it := range f.Items {
		if it.Dig == d {
			return it
		}
	}
	return nil
}

func (f *Fix) Names() []string { return h.SortedKeys(f.Items) }

const (
	mtImg   = types.MediaTypeOCI1Manifest
	mtIdx   = types.MediaTypeOCI1ManifestList
	mtConf  = types.MediaTypeOCI1ImageConfig
	mtLayer = types.MediaTypeOCI1Layer
	mtEmpty = types.MediaTypeOCI1Empty
)

// StdFix is the content universe shared by the registry checks.
func StdFix() *Fix {
	f := NewFix()
	f.Blob("c", mtConf, []byte("{}"))
	f.Blob("l1", mtLayer, []byte("layer-1"))
	f.Blob("l2", mtLayer, []byte("layer-2"))
	f.Blob("e", mtEmpty, []byte("{ }"))
	f.Image("I1", mtImg, "c", []string{"l1"}, "", "", nil)
	f.Image("I2", mtImg, "c", []string{"l2"}, "", "", nil)
	f.Index("X", mtIdx, []string{"I1", "I2"}, "", "", nil)
	f.Index("Y", mtIdx, []string{"X"}, "", "", nil)
	f.Image("A1", mtImg, "e", nil, "I1", "application/x.test", map[string]string{"k": "v1"})
	f.Image("A2", mtImg, "e", nil, "I1", "", nil) // artifactType falls back to the config media type
	f.Index("A3", mtIdx, nil, "I1", "application/x.test", map[string]string{"k": "v3"})
	f.Image("A4", mtImg, "e", nil, "A1", "application/x.test", nil) // referrer of a referrer
	f.Image("A5", mtImg, "e", nil, h.Dig("sha256", []byte("never-pushed")), "application/x.test", nil)
	f.Image("AX", mtImg, "e", nil, "X", "application/x.test", nil) // referrer of an index
	f.Index("X2", mtIdx, []string{"I2"}, "", "", nil)
	f.Image("AX2", mtImg, "e", nil, "X2", "application/x.test", nil)
	return f
}

// ---- reference model ---------------------------------------------------------------------------

// MRepo models one repository: what has been acknowledged and not deleted.
type MRepo struct {
	Cas    map[string]int64  // content present in the CAS (blob or manifest body): name -> virtual time of creation
	Mans   map[string]int64  // manifests present in the index: name -> time of (first) push
	ManMT  map[string]string // media type each manifest was pushed with
	Tags   map[string]string // tag -> manifest name
	fix    *Fix
	Limbo  map[string]bool // names whose presence the statement leaves open (may have been collected)
	Orphan map[string]bool // manifests that were children of an index that has since been deleted (shape information)
	TagDel map[string]bool // manifests that lost a tag through a tag delete while staying present (shape information)
}

type MReg struct {
	Repos map[string]*MRepo
	fix   *Fix
}

func NewMReg() *MReg { return &MReg{Repos: map[string]*MRepo{}} }

// NewMRegFix: a model that knows the fixture (to record shape information such as orphaned children).
func NewMRegFix(f *Fix) *MReg { return &MReg{Repos: map[string]*MRepo{}, fix: f} }

func (m *MReg) Repo(name string) *MRepo {
	r, ok := m.Repos[name]
	if !ok {
		r = &MRepo{fix: m.fix, Cas: map[string]int64{}, Mans: map[string]int64{}, ManMT: map[string]string{}, Tags: map[string]string{}, Limbo: map[string]bool{}, TagDel: map[string]bool{}, Orphan: map[string]bool{}}
		m.Repos[name] = r
	}
	return r
}

func (m *MReg) String() string {
	b, _ := json.Marshal(m)
	return string(b)
}

func (r *MRepo) PushBlob(name string) {
	// an acknowledged upload is an upload, whether or not the content was already there: it is young again
	r.Cas[name] = vrt.NowNanos()
	delete(r.Limbo, name)
}

// Complete reports whether every direct reference of the manifest is present (blobs in the
// CAS, child manifests in the CAS - olareg checks the content store, see C04 notes).
func (r *MRepo) Complete(f *Fix, it *Item) (ok bool, limbo bool) {
	ok = true
	chk := func(n string) {
		if _, has := r.Cas[n]; !has {
			ok = false
		}
		if r.Limbo[n] {
			limbo = true
		}
	}
	if it.Config != "" {
		chk(it.Config)
	}
	for _, l := range it.Layers {
		chk(l)
	}
	for _, c := range it.Children {
		chk(c)
		if _, inIdx := r.Mans[c]; !inIdx {
			if _, has := r.Cas[c]; has {
				limbo = true // body still in the store but the manifest was deleted: the statement leaves it open
			}
		}
	}
	return ok, limbo
}

func (r *MRepo) PushManifest(it *Item, tag string) {
	delete(r.Orphan, it.Name)
	if _, ok := r.Cas[it.Name]; !ok {
		r.Cas[it.Name] = vrt.NowNanos()
	}
	if _, ok := r.Mans[it.Name]; !ok {
		r.Mans[it.Name] = vrt.NowNanos()
	}
	r.ManMT[it.Name] = it.MT
	delete(r.Limbo, it.Name)
	if tag != "" {
		r.Tags[tag] = it.Name
	}
}

func (r *MRepo) DeleteTag(tag string) bool {
	n, ok := r.Tags[tag]
	delete(r.Tags, tag)
	if ok {
		r.TagDel[n] = true
	}
	return ok
}

func (r *MRepo) DeleteManifest(name string) bool {
	_, ok := r.Mans[name]
	if ok && r.fix != nil {
		for _, c := range r.fix.Items[name].Children {
			if _, present := r.Mans[c]; present {
				r.Orphan[c] = true
			}
		}
	}
	delete(r.Mans, name)
	delete(r.TagDel, name)
	for t, n := range r.Tags {
		if n == name {
			delete(r.Tags, t)
		}
	}
	return ok
}

// AfterCollection marks what a collection pass with the default policy may have removed as
// "left open": artifacts whose subject is not present (their response is collected with the
// subject) and, transitively, their own referrers.
func (r *MRepo) AfterCollection(f *Fix) {
	for changed := true; changed; {
		changed = false
		for n := range r.Mans {
			it := f.Items[n]
			if it.Subject == "" || r.Limbo[n] {
				continue
			}
			if _, ok := r.Mans[it.Subject]; !ok || r.Limbo[it.Subject] {
				r.Limbo[n] = true
				changed = true
			}
		}
	}
}

// Referrers returns the names of the present manifests whose subject digest is subj.
func (r *MRepo) Referrers(f *Fix, subj string) []string {
	var out []string
	for n := range r.Mans {
		if f.Items[n].SubjDig == subj {
			out = append(out, n)
		}
	}
	sort.Strings(out)
	return out
}

// ---- comparing the implementation with the model -----------------------------------------------------

type DiffOpts struct {
	Prop      string
	Repo      string
	Items     []string // item names to probe
	Tags      []string
	Subjects  []string // subject digests to probe through the referrers API ("" = skip referrers)
	Head      bool     // also issue HEAD requests
	SkipBlobs bool
	NoAbsence bool // do not demand 404 for items the model does not hold
}

// refDesc is the referrers descriptor the statement prescribes for an artifact.
func refDesc(it *Item) h.Desc {
	return h.Desc{MediaType: it.MT, Digest: digest.Digest(it.Dig), Size: int64(len(it.Data)), ArtifactType: it.ArtType, Annotations: it.Ann}
}

// DiffModel probes every read endpoint over the universe and reports every difference from the model.
func DiffModel(w *h.World, f *Fix, m *MRepo, o DiffOpts) []h.Violation {
	var vs []h.Violation
	add := func(rule, sig, format string, a ...any) { vs = append(vs, h.V(rule, sig, format, a...)) }
	repo := o.Repo
	for _, n := range o.Items {
		it := f.Items[n]
		if m.Limbo[n] {
			continue
		}
		if it.Manifest {
			_, present := m.Mans[n]
			r := w.GetManifest(repo, it.Dig)
			if present {
				if r.Status != 200 {
					shape := kindOf(it)
					if m.Orphan[n] {
						shape += ":child-of-deleted-index"
					}
					add("manifest-readable", "manifest-missing:"+shape, "%s (%s) was acknowledged and not deleted, GET by digest answered %s", n, it.Dig, r)
				} else {
					if string(r.Body) != string(it.Data) || r.H.Get("Docker-Content-Digest") != it.Dig || r.H.Get("Content-Length") != fmt.Sprint(len(it.Data)) {
						add("manifest-bytes", "manifest-bytes-wrong", "%s: GET by digest returned other bytes or headers: %s", n, r)
					}
					if r.H.Get("Content-Type") != m.ManMT[n] {
						add("manifest-mediatype", "manifest-mediatype-wrong", "%s: pushed as %s, served as %s", n, m.ManMT[n], r.H.Get("Content-Type"))
					}
				}
				if o.Head && r.Status == 200 {
					hr := w.HeadManifest(repo, it.Dig)
					if hr.Status != 200 || hr.H.Get("Docker-Content-Digest") != it.Dig || hr.H.Get("Content-Length") != fmt.Sprint(len(it.Data)) || len(hr.Body) != 0 {
						add("manifest-head", "manifest-head-wrong", "%s: HEAD by digest answered %s", n, hr)
					}
				}
			} else if r.Status != 404 && !o.NoAbsence && !m.bodyListedByPresentIndex(n) {
				add("deleted-manifest-gone", "manifest-unexpected", "%s is not in the model (never pushed or deleted), GET by digest answered %s", n, r)
			}
		}
		if !o.SkipBlobs {
			_, present := m.Cas[n]
			r := w.Get("/v2/" + repo + "/blobs/" + it.Dig)
			if present {
				if r.Status != 200 {
					add("blob-readable", "blob-missing:"+kindOf(it), "%s (%s) is in the content store per the model, GET blob answered %s", n, it.Dig, r)
				} else if string(r.Body) != string(it.Data) || r.H.Get("Docker-Content-Digest") != it.Dig || r.H.Get("Content-Length") != fmt.Sprint(len(it.Data)) {
					add("blob-bytes", "blob-bytes-wrong", "%s: GET blob returned other bytes or headers: %s", n, r)
				}
				if o.Head {
					hr := w.Head("/v2/" + repo + "/blobs/" + it.Dig)
					if hr.Status != 200 || hr.H.Get("Docker-Content-Digest") != it.Dig || hr.H.Get("Content-Length") != fmt.Sprint(len(it.Data)) {
						add("blob-head", "blob-head-wrong", "%s: HEAD blob answered %s", n, hr)
					}
				}
			} else if r.Status != 404 && !it.Manifest && !o.NoAbsence {
				add("blob-absent", "blob-unexpected", "%s was never uploaded (or was deleted) but GET blob answered %s", n, r)
			}
		}
	}
	// tags
	for _, t := range o.Tags {
		r := w.GetManifest(repo, t)
		if n, ok := m.Tags[t]; ok {
			it := f.Items[n]
			if m.Limbo[n] {
				continue
			}
			if r.Status != 200 || r.H.Get("Docker-Content-Digest") != it.Dig || string(r.Body) != string(it.Data) {
				add("tag-resolves", "tag-wrong", "tag %s should resolve to %s (%s), got %s", t, n, it.Dig, r)
			}
		} else if r.Status != 404 && !o.NoAbsence {
			add("tag-absent", "tag-unexpected", "tag %s is not in the model, GET answered %s", t, r)
		}
	}
	if o.Tags != nil {
		want := h.SortedKeys(m.Tags)
		got, r := w.Tags(repo, "")
		if len(m.Tags) == 0 && len(m.Cas) == 0 && len(m.Mans) == 0 {
			// a repository that holds nothing may answer 404 NAME_UNKNOWN or an empty list
			if got != nil && len(got) != 0 {
				add("listing-exact", "tag-list-wrong", "tags/list of an empty repository = %v", got)
			}
		} else if got == nil || !eqStrings(got, want) {
			if !(got == nil && len(want) == 0 && r.Status == 404) {
				add("listing-exact", "tag-list-wrong", "tags/list should be %v, got %v (%s)", want, got, r)
			}
		}
	}
	// referrers
	for _, s := range o.Subjects {
		vs = append(vs, DiffReferrers(w, f, m, repo, s, "")...)
	}
	return vs
}

func kindOf(it *Item) string {
	switch {
	case !it.Manifest:
		return "blob"
	case it.SubjDig != "":
		return "artifact"
	case it.Children != nil || it.MT == mtIdx:
		return "index"
	}
	return "image"
}

// DiffReferrers compares the union of the pages of the referrers response with the model.
func DiffReferrers(w *h.World, f *Fix, m *MRepo, repo, subj, filter string) []h.Violation {
	return DiffReferrersPass(w, f, m, repo, subj, filter, "first-request")
}

// DiffReferrersPass: pass names the request ("first-request", "repeated-request") for shape signatures.
func DiffReferrersPass(w *h.World, f *Fix, m *MRepo, repo, subj, filter, pass string) []h.Violation {
	var vs []h.Violation
	add := func(rule, sig, format string, a ...any) { vs = append(vs, h.V(rule, sig, format, a...)) }
	var want []h.Desc
	for _, n := range m.Referrers(f, subj) {
		if m.Limbo[n] {
			return nil
		}
		d := refDesc(f.Items[n])
		if filter == "" || d.ArtifactType == filter {
			want = append(want, d)
		}
	}
	pages := w.Referrers(repo, subj, filter)
	var got []h.Desc
	for pi, p := range pages {
		if p.Status != 200 {
			add("referrers-200", "referrers-status", "referrers(%s) page %d answered %s", short(subj), pi, p)
			return vs
		}
		if ct := p.H.Get("Content-Type"); ct != mtIdx {
			add("referrers-index", "referrers-content-type", "referrers(%s) page %d has Content-Type %q", short(subj), pi, ct)
		}
		var idx types.Index
		if err := json.Unmarshal(p.Body, &idx); err != nil {
			add("referrers-index", "referrers-unparsable", "referrers(%s) page %d: %v: %s", short(subj), pi, err, p)
			return vs
		}
		// demanded only where the filter had something to apply to (the subject has referrers in the model)
		if filter != "" && len(m.Referrers(f, subj)) > 0 && p.H.Get("Oci-Filters-Applied") != "artifactType" {
			add("filter-announced", fmt.Sprintf("filter-header-missing:%s:page=%d", pass, minInt(pi, 1)), "filtered referrers(%s) page %d (%s) lacks OCI-Filters-Applied: %s", short(subj), pi, pass, p)
		}
		got = append(got, idx.Manifests...)
	}
	if msg := cmpDescs(got, want); msg != "" {
		names := func(ds []h.Desc) []string {
			var out []string
			for _, d := range ds {
				if it := f.ByDigest(d.Digest.String()); it != nil {
					out = append(out, it.Name)
				} else {
					out = append(out, short(d.Digest.String()))
				}
			}
			sort.Strings(out)
			return out
		}
		sig := "referrers-wrong"
		switch {
		case len(got) < len(want):
			sig = "referrers-missing-entry"
			for _, n := range m.Referrers(f, subj) {
				if m.TagDel[n] {
					sig = "referrers-missing-entry:artifact-lost-a-tag-by-tag-delete"
				}
			}
		case len(got) > len(want):
			sig = "referrers-extra-entry"
		}
		add("referrers-exact", sig, "referrers(%s, filter=%q) lists %v, model says %v: %s", short(subj), filter, names(got), names(want), msg)
	}
	return vs
}

func minInt(a, b int) int {
	if a < b {
		return a
	}
	return b
}

func short(d string) string {
	if i := strings.Index(d, ":"); i > 0 && len(d) > i+9 {
		return d[:i+9]
	}
	return d
}

func cmpDescs(got, want []h.Desc) string {
	key := func(d h.Desc) string {
		b, _ := json.Marshal(d)
		return string(b)
	}
	g := map[string]int{}
	for _, d := range got {
		g[key(d)]++
	}
	var msgs []string
	for _, d := range want {
		k := key(d)
		if g[k] == 0 {
			msgs = append(msgs, "missing "+k)
		} else {
			g[k]--
		}
	}
	for k, n := range g {
		if n > 0 {
			msgs = append(msgs, fmt.Sprintf("unexpected (x%d) %s", n, k))
		}
	}
	sort.Strings(msgs)
	return strings.Join(msgs, "; ")
}

// ReadTranscript is the complete read-probe transcript over a universe (for differential oracles).
func ReadTranscript(w *h.World, f *Fix, repo string, items, tags, subjects []string) string {
	var sb strings.Builder
	line := func(what string, r h.Resp) {
		body := h.HashStr(string(r.Body))
		if r.Status >= 400 {
			body = "-" // error texts are not part of the comparison
		}
		fmt.Fprintf(&sb, "%s -> %d ct=%s dig=%s len=%s body=%s link=%s\n", what, r.Status, r.H.Get("Content-Type"), r.H.Get("Docker-Content-Digest"), r.H.Get("Content-Length"), body, r.H.Get("Link"))
	}
	for _, n := range items {
		it := f.Items[n]
		if it.Manifest {
			line("GET manifest "+n, w.GetManifest(repo, it.Dig))
		}
		line("GET blob "+n, w.Get("/v2/"+repo+"/blobs/"+it.Dig))
	}
	for _, t := range tags {
		line("GET tag "+t, w.GetManifest(repo, t))
	}
	tl, r := w.Tags(repo, "")
	fmt.Fprintf(&sb, "tags -> %d %v\n", r.Status, tl)
	for _, s := range subjects {
		pages := w.Referrers(repo, s, "")
		var ds []string
		for _, p := range pages {
			var idx types.Index
			if p.Status == 200 && json.Unmarshal(p.Body, &idx) == nil {
				for _, d := range idx.Manifests {
					b, _ := json.Marshal(d)
					ds = append(ds, string(b))
				}
			} else {
				ds = append(ds, fmt.Sprintf("status=%d", p.Status))
			}
		}
		sort.Strings(ds)
		fmt.Fprintf(&sb, "referrers %s -> %v\n", short(s), ds)
	}
	return sb.String()
}

// ---- operation constructors --------------------------------------------------------------------------

func regM(w *h.World) *MReg { return w.M.(*MReg) }

// opPushBlob uploads a fixture blob monolithically.
func opPushBlob(prop, repo string, f *Fix, name string) h.Op {
	return h.Op{Name: fmt.Sprintf("push blob %s to %s", name, repo), Do: func(w *h.World) []h.Violation {
		it := f.Items[name]
		r := w.PushBlob(repo, it.Data, it.Dig)
		if r.Status != 201 {
			return []h.Violation{h.V("valid-upload-acknowledged", "valid-blob-refused", "upload of %s answered %s", name, r)}
		}
		regM(w).Repo(repo).PushBlob(name)
		return nil
	}}
}

// opPushMan pushes a fixture manifest by tag ("" = by digest). The model decides whether it must be
// accepted (complete), must be refused (a reference is missing) or is left open.
func opPushMan(prop, repo string, f *Fix, name, tag string) h.Op {
	nm := fmt.Sprintf("push %s by digest to %s", name, repo)
	if tag != "" {
		nm = fmt.Sprintf("push %s as %s:%s", name, repo, tag)
	}
	return h.Op{Name: nm, Do: func(w *h.World) []h.Violation {
		it := f.Items[name]
		m := regM(w).Repo(repo)
		ref := it.Dig
		if tag != "" {
			ref = tag
		}
		complete, limbo := m.Complete(f, it)
		r := w.PutManifest(repo, ref, it.MT, it.Data)
		switch {
		case r.Status == 201:
			if !complete && !limbo {
				return []h.Violation{h.V("incomplete-manifest-refused", "incomplete-manifest-accepted", "%s references content missing from %s but was acknowledged: %s", name, repo, r)}
			}
			m.PushManifest(it, tag)
		case r.Status >= 400 && r.Status < 500:
			if complete && !limbo {
				return []h.Violation{h.V("complete-manifest-accepted", "complete-manifest-refused", "%s is complete in %s but was refused: %s", name, repo, r)}
			}
		default:
			return []h.Violation{h.V("manifest-push-status", "manifest-push-5xx", "push of %s answered %s", name, r)}
		}
		return nil
	}}
}

func opDeleteTag(prop, repo, tag string) h.Op {
	return h.Op{Name: fmt.Sprintf("delete tag %s:%s", repo, tag), Do: func(w *h.World) []h.Violation {
		m := regM(w).Repo(repo)
		r := w.Delete("/v2/" + repo + "/manifests/" + tag)
		had := m.DeleteTag(tag)
		if had && r.Status != 202 {
			return []h.Violation{h.V("delete-acknowledged", "tag-delete-refused", "delete of existing tag %s answered %s", tag, r)}
		}
		return nil
	}}
}

func opDeleteMan(prop, repo string, f *Fix, name string) h.Op {
	return h.Op{Name: fmt.Sprintf("delete %s by digest from %s", name, repo), Do: func(w *h.World) []h.Violation {
		m := regM(w).Repo(repo)
		r := w.Delete("/v2/" + repo + "/manifests/" + f.Items[name].Dig)
		orphan := m.Orphan[name]
		had := m.DeleteManifest(name)
		if m.Limbo[name] || orphan {
			return nil
		}
		if had && r.Status != 202 {
			return []h.Violation{h.V("delete-acknowledged", "digest-delete-refused", "delete of present manifest %s answered %s", name, r)}
		}
		return nil
	}}
}

// withProp stamps the property id on violations.
func withProp(prop string, vs []h.Violation) []h.Violation {
	for i := range vs {
		vs[i].Property = prop
	}
	return vs
}

// Raw adds a manifest item with given bytes that has the same references as base.
func (f *Fix) Raw(name string, base *Item, data []byte) *Item {
	it := &Item{Name: name, Manifest: true, MT: base.MT, Data: data, Dig: h.Dig("sha256", data), Config: base.Config, Layers: base.Layers,
		Children: base.Children, Subject: base.Subject, SubjDig: base.SubjDig, ArtType: base.ArtType, Ann: base.Ann}
	f.Items[name] = it
	return it
}

// closeViolation: no statement demands that Close returns nil (it reports, for instance, a repository that was
// only ever read and does not exist on disk); a panic inside Close is a different matter.
func closeViolation(err error) []h.Violation {
	if err != nil && strings.HasPrefix(err.Error(), "panic in Close") {
		return []h.Violation{h.V("restart", "close-panics", "%v", err)}
	}
	return nil
}

// bodyListedByPresentIndex: the manifest is not present per the model (deleted by digest), but its body is still
// stored and a present index lists it as a child. index.json has no record of such a delete, so whether GET by digest
// knows the manifest depends on when the repository was last loaded from disk (see C06/C10): left open.
func (r *MRepo) bodyListedByPresentIndex(name string) bool {
	if _, ok := r.Cas[name]; !ok || r.fix == nil {
		return false
	}
	for p := range r.Mans {
		if it := r.fix.Items[p]; it != nil && p != name {
			for _, c := range it.Children {
				if c == name {
					return true
				}
			}
		}
	}
	return false
}
