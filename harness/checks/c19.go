package checks

import (
	"encoding/json"
	"fmt"
	"os"
	"os/exec"
	"path/filepath"
	"strings"
	"time"

	"github.com/olareg/olareg/config"
	"github.com/olareg/olareg/internal/verif/h"
	"github.com/olareg/olareg/internal/verif/vrt"
)

// C19 — every setting has its documented effect, for every combination.
// Part 1 (here): the rate limit as an explicit-state search with the virtual clock.
// Part 2: the flag space, the other flags and termination, executed inside a build of cmd/olareg (harness/c19).

type c19Bucket struct {
	First int64
	Count int
}

type c19Model struct {
	B map[string]*c19Bucket
}

func c19RateSpecs(tier string) []*h.SeqSpec {
	limits := []int{1, 2}
	depth := 7
	if tier == "thorough" {
		limits = []int{1, 2, 3}
		depth = 9
	}
	var specs []*h.SeqSpec
	for _, store := range []string{"mem"} {
		for _, n := range limits {
			for _, family := range []string{"", "addresses"} {
				n := n
				mdl := func(w *h.World) *c19Model { return w.M.(*c19Model) }
				var ops []h.Op
				req := func(name, ip, remote, xff string) {
					ops = append(ops, h.Op{Name: name, Do: func(w *h.World) []h.Violation {
						hd := map[string]string{}
						if xff != "" {
							hd["X-Forwarded-For"] = xff
						}
						r := w.Do(h.Req{Method: "GET", Path: "/v2/", Remote: remote, Header: hd})
						m := mdl(w)
						now := vrt.NowNanos()
						b := m.B[ip]
						if b == nil || now-b.First > int64(time.Second) {
							b = &c19Bucket{First: now, Count: 0}
							m.B[ip] = b
						}
						b.Count++
						wantServed := b.Count <= n
						var vs []h.Violation
						// "warning headers to include with all responses": the refusal of a throttled request is a response
						if ws := r.H.Values("Warning"); len(ws) != 1 || ws[0] != `299 - "verif warning"` {
							vs = append(vs, h.V("warnings-on-all-responses", fmt.Sprintf("warning-header-missing:status-%d", r.Status), "the configured warning is not on the answer %s of request %d of %s (Warning headers %v)", r, b.Count, ip, ws))
						}
						switch {
						case wantServed && r.Status != 200:
							vs = append(vs, h.V("other-requests-unaffected", "request-within-limit-refused", "request %d of %s in its accounting second (limit %d) answered %s", b.Count, ip, n, r))
						case !wantServed && r.Status != 429:
							vs = append(vs, h.V("limit-enforced", "request-over-limit-served", "request %d of %s in its accounting second (limit %d) answered %s", b.Count, ip, n, r))
						case !wantServed && r.H.Get("Retry-After") == "":
							vs = append(vs, h.V("retry-after", "no-retry-after-on-429", "429 without Retry-After"))
						}
						return vs
					}})
				}
				steps := []time.Duration{400 * time.Millisecond, time.Second, time.Second + 1, 11 * time.Second}
				specDepth := depth
				if family == "addresses" {
					// "per source IP": the port is not part of the client's identity, IPv6 addresses that share leading
					// groups are different clients, the first element of an X-Forwarded-For list is the client
					req("request from A", "10.0.0.1", "10.0.0.1:1111", "")
					req("request from A, another port", "10.0.0.1", "10.0.0.1:40000", "")
					req("request from [2001:db8::1]", "[2001:db8::1]", "[2001:db8::1]:40000", "")
					req("request from [2001:db8::1], another port", "[2001:db8::1]", "[2001:db8::1]:40001", "")
					req("request from [2001:db8::2]", "[2001:db8::2]", "[2001:db8::2]:40000", "")
					req("request from [::1]", "[::1]", "[::1]:7", "")
					req("request from 10.0.0.10 (A is a prefix of it)", "10.0.0.10", "10.0.0.10:1111", "")
					req("request from B through two proxies (X-Forwarded-For list)", "10.0.0.2", "10.9.9.9:1", "10.0.0.2, 10.8.8.8")
					steps = []time.Duration{time.Second + 1}
					specDepth = depth - 3
				} else {
					req("request from A", "10.0.0.1", "10.0.0.1:1111", "")
					req("request from B", "10.0.0.2", "10.0.0.2:2222", "")
					req("request from A through a proxy (X-Forwarded-For)", "10.0.0.1", "10.9.9.9:1", "10.0.0.1")
				}
				for _, d := range steps {
					d := d
					ops = append(ops, h.Op{Name: fmt.Sprintf("advance %v", d), Do: func(w *h.World) []h.Violation { vrt.Advance(d, false); return nil }})
				}
				specs = append(specs, &h.SeqSpec{
					Name: fmt.Sprintf("c19-ratelimit-%s%s-%d", store, map[string]string{"": "", "addresses": "-addresses"}[family], n),
					Conf: &h.Conf{Name: store, Store: store, Mod: func(c *config.Config) { c.API.RateLimit = n; c.API.Warnings = []string{"verif warning"} }},
					Init: func(w *h.World) { w.M = &c19Model{B: map[string]*c19Bucket{}} },
					Ops:  ops,
					Model: func(w *h.World) string {
						m := mdl(w)
						var parts []string
						for _, k := range h.SortedKeys(m.B) {
							age := vrt.NowNanos() - m.B[k].First
							if age > int64(time.Second) {
								continue // an expired window has no future effect
							}
							parts = append(parts, fmt.Sprintf("%s:%d:%d", k, age, m.B[k].Count))
						}
						return strings.Join(parts, ",")
					},
					NonTriv:  func(w *h.World) bool { return len(mdl(w).B) > 0 },
					MaxDepth: specDepth,
					Chunk:    20,
				})
			}
		}
	}
	return specs
}

// c19Defaults enumerates assignments of the configuration fields to {unset, explicit values} and checks
// SetDefaults against the documented defaults: unset fields take the default, explicitly set (non-zero) values survive.
func c19Defaults(rep *h.Report) {
	type triB = int // 0 unset, 1 true, 2 false
	boolVal := func(v triB) *bool {
		switch v {
		case 1:
			return bpF(true)
		case 2:
			return bpF(false)
		}
		return nil
	}
	wantB := func(v triB, def bool) bool {
		if v == 0 {
			return def
		}
		return v == 1
	}
	type num struct {
		manifestLimit, refLimit int64
		pageExpire              time.Duration
		pageLimit               int
		freq, grace             time.Duration
		uploadMax               int
	}
	nums := []num{}
	for _, ml := range []int64{0, -5, 100} {
		for _, rl := range []int64{0, 77} {
			for _, pe := range []time.Duration{0, 3 * time.Second} {
				for _, pl := range []int{0, 9} {
					for _, fr := range []time.Duration{0, -1, 7 * time.Minute} {
						for _, gr := range []time.Duration{0, -1, 90 * time.Minute} {
							for _, um := range []int{0, -1, 5} {
								nums = append(nums, num{ml, rl, pe, pl, fr, gr, um})
							}
						}
					}
				}
			}
		}
	}
	evals, distinct := 0, map[string]bool{}
	check := func(b [9]triB, n num, store config.Store, root string) {
		evals++
		c := config.Config{
			API: config.ConfigAPI{PushEnabled: boolVal(b[0]), DeleteEnabled: boolVal(b[1]), Blob: config.ConfigAPIBlob{DeleteEnabled: boolVal(b[2])},
				Referrer: config.ConfigAPIReferrer{Enabled: boolVal(b[3]), Limit: n.refLimit, PageCacheExpire: n.pageExpire, PageCacheLimit: n.pageLimit},
				Manifest: config.ConfigAPIManifest{Limit: n.manifestLimit}},
			Storage: config.ConfigStorage{StoreType: store, RootDir: root, ReadOnly: boolVal(b[4]),
				GC: config.ConfigGC{Frequency: n.freq, GracePeriod: n.grace, RepoUploadMax: n.uploadMax, Untagged: boolVal(b[5]), EmptyRepo: boolVal(b[6]), ReferrersDangling: boolVal(b[7]), ReferrersWithSubj: boolVal(b[8])}},
		}
		c.SetDefaults()
		bad := func(field, format string, a ...any) {
			v := h.V("defaults-and-explicit-values", "setdefaults-wrong:"+field, "SetDefaults: "+field+": "+format, a...)
			v.Conf = "config.SetDefaults"
			v.History = []string{fmt.Sprintf("bools=%v numbers=%+v store=%v root=%q", b, n, store, root)}
			rep.AddViolation(v)
		}
		bp := func(field string, got *bool, v triB, def bool) {
			if got == nil || *got != wantB(v, def) {
				bad(field, "got %v, want %v", got, wantB(v, def))
			}
		}
		bp("API.PushEnabled", c.API.PushEnabled, b[0], true)
		bp("API.DeleteEnabled", c.API.DeleteEnabled, b[1], false)
		bp("API.Blob.DeleteEnabled", c.API.Blob.DeleteEnabled, b[2], false)
		bp("API.Referrer.Enabled", c.API.Referrer.Enabled, b[3], true)
		bp("Storage.ReadOnly", c.Storage.ReadOnly, b[4], false)
		bp("GC.Untagged", c.Storage.GC.Untagged, b[5], false)
		bp("GC.EmptyRepo", c.Storage.GC.EmptyRepo, b[6], true)
		bp("GC.ReferrersDangling", c.Storage.GC.ReferrersDangling, b[7], false)
		bp("GC.ReferrersWithSubj", c.Storage.GC.ReferrersWithSubj, b[8], true)
		wantML := n.manifestLimit
		if wantML <= 0 {
			wantML = 8 * 1024 * 1024
		}
		if c.API.Manifest.Limit != wantML {
			bad("API.Manifest.Limit", "got %d, want %d", c.API.Manifest.Limit, wantML)
		}
		d64 := func(field string, got, set, def int64) {
			want := set
			if set == 0 {
				want = def
			}
			if got != want {
				bad(field, "got %d, want %d", got, want)
			}
		}
		d64("API.Referrer.Limit", c.API.Referrer.Limit, n.refLimit, 4*1024*1024)
		d64("API.Referrer.PageCacheExpire", int64(c.API.Referrer.PageCacheExpire), int64(n.pageExpire), int64(5*time.Minute))
		d64("API.Referrer.PageCacheLimit", int64(c.API.Referrer.PageCacheLimit), int64(n.pageLimit), 1000)
		d64("GC.Frequency", int64(c.Storage.GC.Frequency), int64(n.freq), int64(15*time.Minute))
		d64("GC.GracePeriod", int64(c.Storage.GC.GracePeriod), int64(n.grace), int64(time.Hour))
		d64("GC.RepoUploadMax", int64(c.Storage.GC.RepoUploadMax), int64(n.uploadMax), 1000)
		wantRoot := root
		if store == config.StoreDir && root == "" {
			wantRoot = "."
		}
		if c.Storage.RootDir != wantRoot || c.Storage.StoreType != store {
			bad("Storage.RootDir", "store %v root %q, want %q", c.Storage.StoreType, c.Storage.RootDir, wantRoot)
		}
		distinct[fmt.Sprintf("%v%v", b, n)] = true
	}
	var pats [][9]triB
	total := 1
	for i := 0; i < 9; i++ {
		total *= 3
	}
	for k := 0; k < total; k++ {
		var b [9]triB
		x := k
		for i := range b {
			b[i] = x % 3
			x /= 3
		}
		pats = append(pats, b)
	}
	allSet := num{100, 77, 3 * time.Second, 9, 7 * time.Minute, 90 * time.Minute, 5}
	for _, b := range pats {
		check(b, num{}, config.StoreMem, "")
		check(b, allSet, config.StoreDir, "/x")
	}
	for _, n := range nums {
		for _, b := range [][9]triB{{}, {1, 1, 1, 1, 1, 1, 1, 1, 1}, {2, 2, 2, 2, 2, 2, 2, 2, 2}} {
			check(b, n, config.StoreDir, "")
			check(b, n, config.StoreMem, "/y")
		}
	}
	rep.Evals += evals
	rep.States += len(distinct)
	rep.NonTrivial += len(distinct)
	rep.Trans += evals
	rep.Parts = append(rep.Parts, map[string]any{"setdefaults_assignments": evals, "distinct_assignments": len(distinct)})
}

type c19Viol struct {
	Rule   string   `json:"rule"`
	Sig    string   `json:"sig"`
	Detail string   `json:"detail"`
	Conf   string   `json:"conf"`
	Args   []string `json:"args"`
}

type c19Result struct {
	Points  int            `json:"points"`
	Probes  int            `json:"probes"`
	Viol    []c19Viol      `json:"viol"`
	Samples []string       `json:"samples"`
	Parts   map[string]int `json:"parts"`
}

func init() {
	h.RegisterSeq(&h.SeqCheck{ID: "C19rate", Level: "model_checking", Specs: c19RateSpecs, Budget: func(tier string) time.Duration {
		if tier == "thorough" {
			return 4 * time.Minute
		}
		return 40 * time.Second
	}})
	delete(h.Checks, "C19rate")
	h.Checks["C19"] = func(tier string) int {
		rep := h.NewReport("C19", tier, "model_checking")
		rep.Rule = "part 1 (rate limit): breadth-first search over all sequences (bounded depth) of requests from address A, from B and from A through X-Forwarded-For, and virtual time steps 400 ms, 1 s, 1 s + 1 ns, 11 s, for RateLimit in {1,2,3}, against the documented fixed window (more than one second since the first counted request starts a new window); a second family varies the client address (another port of the same address, IPv6 addresses with shared leading groups, an address that is a prefix of another, an X-Forwarded-For list): one window per source IP; a warning is configured and must be on every answer, the 429 included. " +
			"part 1b (defaults): config.SetDefaults on every {unset,true,false} assignment of the 9 boolean fields (3^9) with the numeric fields all unset / all set, and on every assignment of the 7 numeric fields to {0, negative, positive} values with three boolean patterns, against the documented defaults (an explicit non-zero value is never overridden). " +
			"part 2 (flag space, inside a build of cmd/olareg with the real cobra command): every assignment of the 8 boolean serve flags to true / false plus each flag alone not given (quick: 273 assignments) or to {not given, true, false} (thorough: 6561) x store type {dir, mem}: the configuration the server holds and a fixed probe script, every answer of which - served or refused - must carry the warning given with --warning (reads, referrers, blob upload, session, manifest and artifact push, manifest and blob delete, directory snapshot) are compared with a table written from the flag help texts and config.go; warnings (0-2), rate-limit, gc durations (not given / negative / positive), 'collection disabled' surviving shutdown; " +
			"part 3 (termination): a real SIGTERM after every prefix of a 6-request push history (incl. an open session): serve returns nil, the store is closed, a second run serves everything acknowledged from a valid layout; non-trivial = configuration points"
		rep.Assume = []string{"TLS flags, address binding and verbosity are not covered", "the signal is delivered between requests (the Run/Shutdown hand-shake race before the listener is registered is not explored)"}
		h.RunSeqInto(rep, "C19rate", tier, time.Time{})
		c19Defaults(rep)
		// part 2 and 3: the cmd/olareg build
		exe := filepath.Join(filepath.Dir(os.Args[0]), "olareg-verif")
		cmd := exec.Command(exe)
		cmd.Env = append(os.Environ(), "VERIF_C19="+tier)
		out, err := cmd.Output()
		if err != nil {
			rep.Infra("the cmd/olareg build failed to run: %v\n%s", err, tailS(string(out), 2000))
			return rep.Emit()
		}
		var res c19Result
		found := false
		for _, ln := range strings.Split(string(out), "\n") {
			if strings.HasPrefix(ln, "C19RESULT ") {
				if err := json.Unmarshal([]byte(strings.TrimPrefix(ln, "C19RESULT ")), &res); err == nil {
					found = true
				}
			}
		}
		if !found {
			rep.Infra("no result from the cmd/olareg build:\n%s", tailS(string(out), 2000))
			return rep.Emit()
		}
		rep.States += res.Points
		rep.Trans += res.Probes
		rep.Evals += res.Probes
		rep.Traces += res.Points
		rep.NonTrivial += res.Points
		for _, s := range res.Samples {
			rep.Samples = append(rep.Samples, s)
		}
		rep.Parts = append(rep.Parts, map[string]any{"configuration_points": res.Points, "probes": res.Probes, "parts": res.Parts})
		for _, v := range res.Viol {
			rep.AddViolation(h.Violation{Rule: v.Rule, Sig: v.Sig, Detail: v.Detail, Conf: v.Conf, History: v.Args})
		}
		return rep.Emit()
	}
}

func tailS(s string, n int) string {
	if len(s) > n {
		return s[len(s)-n:]
	}
	return s
}
