package checks

import (
	"fmt"
	"strings"
	"time"

	"github.com/olareg/olareg/config"
	"github.com/olareg/olareg/internal/verif/h"
)

// C05, concurrent part: a collection that runs *while* a push is in flight. Without a grace period nothing protects
// content by age, so the only thing between "references verified" and "manifest listed" is the guard that keeps
// collections and request handlers of one repository apart. Oracle: linearizability (either the tick came first and
// the push was refused, or the push came first and everything it needs survived) plus the literal clause: a tagged
// image whose push was acknowledged is completely pullable at quiescence.
func c05Scenarios(tier string) []*h.Scenario {
	f := StdFix()
	const repo = "r"
	items := []string{"c", "l1", "l2", "e", "I1", "I2", "A1"}
	tags := []string{"t", "u"}
	subjects := []string{f.Items["I1"].Dig}
	putMan := func(n, ref string) h.Step {
		return h.Step{Name: fmt.Sprintf("PUT %s as %s", n, refName(f, ref)), Do: func(w *h.World) string {
			it := f.Items[n]
			r := w.DoNoQuiesce(h.Req{Method: "PUT", Path: "/v2/" + repo + "/manifests/" + ref, Body: it.Data, Header: map[string]string{"Content-Type": it.MT}})
			return fmt.Sprint(r.Status)
		}}
	}
	upload := func(n, way string) h.Step {
		return h.Step{Name: "upload " + n + " (" + way + ")", Do: func(w *h.World) string {
			it := f.Items[n]
			return fmt.Sprint(uploadViaNoQuiesce(w, repo, it.Data, it.Dig, way).Status)
		}}
	}
	del := func(ref string) h.Step {
		return h.Step{Name: "DELETE " + refName(f, ref), Do: func(w *h.World) string {
			return fmt.Sprint(w.DoNoQuiesce(h.Req{Method: "DELETE", Path: "/v2/" + repo + "/manifests/" + ref}).Status)
		}}
	}
	final := func(w *h.World) string { return ReadTranscript(w, f, repo, items, tags, subjects) }
	pullable := func(tag, n string) func(w *h.World, res [][]string, final string) []h.Violation {
		return func(w *h.World, res [][]string, final string) []h.Violation {
			// the push of the tagged image is the last step of thread 0
			if last := res[0][len(res[0])-1]; last != "201" {
				return nil
			}
			var vs []h.Violation
			g := w.GetManifest(repo, tag)
			if g.Status != 200 {
				vs = append(vs, h.V("tagged-image-pullable", "acknowledged-tag-gone-after-concurrent-collection", "the push of %s as %s was acknowledged while a collection ran; GET %s answers %s", n, tag, tag, g))
			}
			for _, d := range append(f.deps(n), n) {
				it := f.Items[d]
				if r := w.Head("/v2/" + repo + "/blobs/" + it.Dig); r.Status != 200 {
					vs = append(vs, h.V("retained-content-survives", "content-of-acknowledged-image-collected-concurrently", "the push of %s as %s was acknowledged while a collection ran; %s (%s) which it needs answers %s", n, tag, d, short(it.Dig), r))
				}
			}
			return vs
		}
	}
	pol := func(grace time.Duration, untagged bool) func(c *config.Config) {
		return func(c *config.Config) {
			GCPolicy{Untagged: untagged, Dangling: true, WithSubj: true, EmptyRepo: true, Grace: grace, Freq: 15 * time.Minute}.Apply(c)
		}
	}
	blobs := func(names ...string) func(w *h.World) {
		return func(w *h.World) {
			for _, b := range names {
				mustStatus(w.PushBlob(repo, f.Items[b].Data, f.Items[b].Dig), 201)
			}
		}
	}
	type def struct {
		name    string
		mod     func(c *config.Config)
		prefix  func(w *h.World)
		threads [][]h.Step
		extra   func(w *h.World, res [][]string, final string) []h.Violation
	}
	defs := []def{
		// the blobs are unreferenced and unprotected: the tick may take them, but not between the push's check and its listing
		{"manifest-push-vs-tick-without-grace", pol(-1, true), blobs("c", "l1"), [][]h.Step{{putMan("I1", "t")}}, pullable("t", "I1")},
		// with a grace period a fresh upload is protected whatever the order
		{"upload-then-manifest-push-vs-tick-with-grace", pol(time.Hour, true), blobs("c"), [][]h.Step{{upload("l1", "POST then PUT"), putMan("I1", "t")}}, pullable("t", "I1")},
		// a referrer pushed while its subject's repository is collected
		{"referrer-push-vs-tick-without-grace", pol(-1, false), func(w *h.World) {
			blobs("c", "l1", "e")(w)
			mustStatus(w.PutManifest(repo, "t", mtImg, f.Items["I1"].Data), 201)
		}, [][]h.Step{{putMan("A1", f.Items["A1"].Dig)}}, nil},
		// the last tag goes while the collection runs, and comes back under another name
		{"retag-vs-tick-without-grace", pol(-1, true), func(w *h.World) {
			blobs("c", "l1")(w)
			mustStatus(w.PutManifest(repo, "t", mtImg, f.Items["I1"].Data), 201)
		}, [][]h.Step{{putMan("I1", "u")}, {del("t")}}, nil},
	}
	var out []*h.Scenario
	bound := 2
	if tier == "thorough" {
		bound = 3
	}
	for _, store := range []string{"mem", "dir"} {
		for _, d := range defs {
			store, d := store, d
			out = append(out, &h.Scenario{
				Name:         "c05-sched-" + store + "-" + d.name,
				Conf:         &h.Conf{Name: store, Store: store, Mod: d.mod},
				Prefix:       d.prefix,
				Threads:      d.threads,
				PendingTick:  true,
				Final:        final,
				Linearizable: true,
				Extra:        d.extra,
				Bound:        bound,
				MaxSeconds:   80,
			})
		}
	}
	return out
}

// uploadViaNoQuiesce is uploadVia for scenario threads.
func uploadViaNoQuiesce(w *h.World, repo string, data []byte, dig, way string) h.Resp {
	if !strings.HasPrefix(way, "POST then PUT") {
		panic("only POST then PUT is used in scenarios")
	}
	r := w.DoNoQuiesce(h.Req{Method: "POST", Path: "/v2/" + repo + "/blobs/uploads/"})
	p, _ := parseLocation(r.H.Get("Location"))
	if r.Status != 202 || p == "" {
		return r
	}
	return w.DoNoQuiesce(h.Req{Method: "PUT", Path: p, Query: "digest=" + dig, Body: data, Header: map[string]string{"Content-Type": "application/octet-stream"}})
}

func init() {
	h.RegisterSched(&h.SchedCheck{ID: "C05sched", Level: "model_checking", Scenarios: c05Scenarios, Budget: func(tier string) time.Duration {
		if tier == "thorough" {
			return 4 * time.Minute
		}
		return 60 * time.Second
	}})
	delete(h.Checks, "C05sched")
}
