#!/bin/bash
# Builds the framework from files on disk only (offline): the rewriter, then the instrumented
# check binary and its -race twin so that the first checks do not pay the cold build.
set -e
cd "$(dirname "$0")"
export GOFLAGS=-mod=mod GOPROXY=off GOSUMDB=off GOTOOLCHAIN=local
mkdir -p bin build/bin evidence replays
(cd tools/vrewrite && go build -o ../../bin/vrewrite .)
REPO="${VERIF_REPO:-/repo}"
./bin/vrewrite -repo "$REPO" -verif "$(pwd)" -out "$(pwd)/build"
(cd "$REPO" && go build -tags verif -overlay "$OLDPWD/build/overlay.json" -o "$OLDPWD/build/bin/vcheck" ./cmd/verifcheck)
(cd "$REPO" && go build -race -tags verif -overlay "$OLDPWD/build/overlay.json" -o "$OLDPWD/build/bin/vcheck-race" ./cmd/verifcheck)
(cd "$REPO" && go build -tags verif -overlay "$OLDPWD/build/overlay.json" -o "$OLDPWD/build/bin/olareg-verif" ./cmd/olareg)
echo setup done
