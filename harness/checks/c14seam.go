package checks

import (
	"context"
	"encoding/json"
	"fmt"
	"sort"
	"strings"

	"github.com/olareg/olareg/config"
	"github.com/olareg/olareg/internal/store"
	"github.com/olareg/olareg/internal/verif/h"
	"github.com/olareg/olareg/internal/verif/vrt"
	"github.com/olareg/olareg/types"
	"github.com/opencontainers/go-digest"
)

// C14, store seam: the HTTP handlers refuse most mutating requests to a read-only store before they reach it, so what
// the store itself does with a mutating call is invisible to the request-level part. Here every mutating method of the
// store interface is called on a read-only directory store and on a read-only memory store over the directory, in every
// order of up to two calls: the call reports an error, nothing under the root changes, and the index and every blob read
// back exactly as before the call.

type c14SeamOut struct {
	Viol  []h.Violation `json:"viol"`
	Runs  int           `json:"runs"`
	Calls int           `json:"calls"`
}

type c14SeamOp struct {
	name string
	do   func(r store.Repo) error
}

func c14SeamOps(f *Fix) []c14SeamOp {
	i1, i2 := f.Items["I1"], f.Items["I2"]
	desc := func(it *Item, ann map[string]string) types.Descriptor {
		return types.Descriptor{MediaType: it.MT, Digest: digest.Digest(it.Dig), Size: int64(len(it.Data)), Annotations: ann}
	}
	return []c14SeamOp{
		{"IndexRemove(tag t)", func(r store.Repo) error { return r.IndexRemove(desc(i1, tagAnn("t"))) }},
		{"IndexRemove(digest of I1)", func(r store.Repo) error { return r.IndexRemove(types.Descriptor{Digest: digest.Digest(i1.Dig)}) }},
		{"IndexRemove(digest of untagged I2)", func(r store.Repo) error { return r.IndexRemove(types.Descriptor{Digest: digest.Digest(i2.Dig)}) }},
		{"IndexInsert(I2 as tag new)", func(r store.Repo) error { return r.IndexInsert(desc(i2, tagAnn("new"))) }},
		{"IndexInsert(I2 as tag t: move)", func(r store.Repo) error { return r.IndexInsert(desc(i2, tagAnn("t"))) }},
		{"BlobDelete(l1)", func(r store.Repo) error { return r.BlobDelete(digest.Digest(f.Items["l1"].Dig)) }},
		{"BlobDelete(I1)", func(r store.Repo) error { return r.BlobDelete(digest.Digest(i1.Dig)) }},
		{"BlobCreate + Write + Close (new content)", func(r store.Repo) error {
			bc, _, err := r.BlobCreate()
			if err != nil {
				return err
			}
			if _, err := bc.Write([]byte("seam")); err != nil {
				_ = bc.Cancel()
				return err
			}
			if err := bc.Verify(digest.Canonical.FromBytes([]byte("seam"))); err != nil {
				_ = bc.Cancel()
				return err
			}
			return bc.Close()
		}},
		{"BlobCreate for content that exists (l1)", func(r store.Repo) error {
			_, _, err := r.BlobCreate(store.BlobWithDigest(digest.Digest(f.Items["l1"].Dig)))
			return err
		}},
	}
}

// c14SeamRead is what a reader of the store sees: the index (entries sorted) and every blob of the universe.
func c14SeamRead(r store.Repo, f *Fix) string {
	var sb strings.Builder
	idx, err := r.IndexGet()
	if err != nil {
		fmt.Fprintf(&sb, "index: error %v\n", err)
	} else {
		var ents []string
		for _, d := range idx.Manifests {
			b, _ := json.Marshal(d)
			ents = append(ents, string(b))
		}
		sort.Strings(ents)
		fmt.Fprintf(&sb, "index: %s\n", strings.Join(ents, " "))
		for _, ref := range []string{"t", "new", f.Items["I1"].Dig, f.Items["I2"].Dig} {
			d, err := idx.GetDesc(ref)
			fmt.Fprintf(&sb, "GetDesc(%s): %s %v\n", short(ref), d.Digest, err != nil)
		}
	}
	for _, n := range []string{"c", "l1", "l2", "e", "I1", "I2"} {
		rd, err := r.BlobGet(digest.Digest(f.Items[n].Dig))
		if err != nil {
			fmt.Fprintf(&sb, "blob %s: absent\n", n)
			continue
		}
		buf := make([]byte, 4096)
		k, _ := rd.Read(buf)
		_ = rd.Close()
		fmt.Fprintf(&sb, "blob %s: %d bytes ok=%v\n", n, k, string(buf[:k]) == string(f.Items[n].Data))
	}
	rd, err := r.BlobGet(digest.Canonical.FromBytes([]byte("seam")))
	if err == nil {
		_ = rd.Close()
	}
	fmt.Fprintf(&sb, "blob seam present: %v\n", err == nil)
	return sb.String()
}

func c14SeamJob() (out c14SeamOut) {
	f := StdFix()
	ops := c14SeamOps(f)
	var seqs [][]int
	for i := range ops {
		seqs = append(seqs, []int{i})
		for j := range ops {
			seqs = append(seqs, []int{i, j})
		}
	}
	for _, st := range []string{"dir", "memdir"} {
		for _, sq := range seqs {
			func() {
				conf := &h.Conf{Name: st + "-ro", Store: st, Prep: func(dir string) { baseImageLayout(f).Write(dir + "/r") }, Mod: func(c *config.Config) {
					ro := true
					c.Storage.ReadOnly = &ro
					c.Storage.GC.Frequency = -1
				}}
				w := h.NewWorld(conf, vrt.Config{})
				defer w.Destroy()
				cfg := w.Cfg
				cfg.SetDefaults()
				var s store.Store
				if st == "dir" {
					s = store.NewDir(cfg)
				} else {
					s = store.NewMem(cfg)
				}
				out.Runs++
				var names []string
				for _, k := range sq {
					names = append(names, ops[k].name)
				}
				add := func(rule, sig, format string, a ...any) {
					v := h.V(rule, sig, format, a...)
					v.Conf = "c14-store-seam-" + st + "-ro"
					v.History = names
					out.Viol = append(out.Viol, v)
				}
				r, err := s.RepoGet(context.Background(), "r")
				if err != nil {
					add("serves-content", "store-seam:repository-not-served", "RepoGet(r): %v", err)
					return
				}
				treeBefore := h.DumpTree(w.Dir)
				before := c14SeamRead(r, f)
				for _, k := range sq {
					out.Calls++
					err := ops[k].do(r)
					after := c14SeamRead(r, f)
					if err == nil {
						add("mutating-call-refused", "store-seam:not-refused:"+strings.Fields(ops[k].name)[0], "%s on a read-only store returned no error", ops[k].name)
					}
					if after != before {
						add("readable-state-unchanged", "store-seam:refused-call-changed-what-is-served:"+strings.Fields(ops[k].name)[0], "%s on a read-only store (error %v) changed what the store serves:\n--- before\n%s--- after\n%s", ops[k].name, err, before, after)
						before = after
					}
				}
				r.Done()
				if err := s.Close(); err != nil {
					_ = err // a read-only store may report what it could not do; only effects are judged
				}
				if t := h.DumpTree(w.Dir); t != treeBefore {
					add("directory-untouched", "store-seam:fs-mutation-under-read-only-root", "the directory changed:\n%s", h.DiffLines(treeBefore, t))
				}
			}()
		}
	}
	return out
}

func init() {
	h.RegisterJob("c14seam", func(arg json.RawMessage) (any, error) { return c14SeamJob(), nil })
	seqReplay := h.Replayers["C14"]
	h.Replayers["C14"] = func(tier string, v h.Violation) int {
		if !strings.HasPrefix(v.Conf, "c14-store-seam-") {
			return seqReplay(tier, v)
		}
		n := 0
		for _, x := range c14SeamJob().Viol {
			if x.Conf == v.Conf && strings.Join(x.History, "|") == strings.Join(v.History, "|") {
				fmt.Printf("VIOLATION property=C14 rule=%s sig=%s history=%v\n  %s\n", x.Rule, x.Sig, x.History, x.Detail)
				n++
			}
		}
		if n > 0 {
			return 1
		}
		fmt.Println("the call sequence does not violate anything:", v.History)
		return 0
	}
	h.SeqExtras["C14"] = func(rep *h.Report) {
		rep.Rule += "; store seam: every sequence of one or two mutating calls of the store interface (IndexInsert, IndexRemove by tag and by digest, BlobDelete, BlobCreate of new and of existing content) on a read-only directory store and a read-only memory store over the directory: each call reports an error, the directory is unchanged, the index and every blob read back as before"
		pool := h.NewPool(1)
		defer pool.Close()
		for _, jr := range pool.Run([]h.Job{h.MkJob("c14seam", struct{}{})}, nil) {
			if jr.Died || jr.Error != "" {
				rep.Infra("c14 store seam worker: %s\n%s", jr.Error, jr.Log)
				continue
			}
			var o c14SeamOut
			if err := json.Unmarshal(jr.Out, &o); err != nil {
				rep.Infra("decode: %v", err)
				continue
			}
			for _, v := range o.Viol {
				rep.AddViolation(v)
			}
			rep.Evals += o.Calls
			rep.Traces += o.Runs
			rep.Trans += o.Calls
			rep.Parts = append(rep.Parts, map[string]any{"part": "store-seam", "call_sequences": o.Runs, "calls": o.Calls})
		}
	}
}
