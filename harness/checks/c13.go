package checks

import (
	"time"

	"github.com/olareg/olareg/internal/verif/h"
)

// C13 — concurrent use of one server is free of data races.
// The C01, C11 and C12 scenario bodies (without Close) are explored under the controlled scheduler in a -race build:
// the scheduler's hand-off uses raw system calls in //go:norace code and is invisible to the detector, so in each
// enumerated schedule the detector's happens-before relation contains olareg's own synchronisation only.

func init() {
	h.RegisterSched(&h.SchedCheck{
		ID:    "C13",
		Level: "model_checking",
		Race:  true,
		Rule: "the scenario bodies of C01, C11 and C12 without Close (requests on one upload session, handlers, collection ticker, cache timers, eviction goroutines, both stores) are explored over all interleavings up to preemption bound 1 (quick) / 2 (thorough) with the binary built with -race; the hand-off between managed threads is a pipe driven by raw system calls in //go:norace code, so the detector only sees olareg's own synchronisation and reports every conflicting pair that is unordered in the enumerated schedule; " +
			"reports are captured per execution and de-duplicated by the pair of access sites; non-trivial = distinct outcomes",
		Assume: []string{"the detector keeps 4 shadow cells per word and a bounded history (runs are short)", "file reads and writes through package os synchronise through the detector's global ioSync object, as in any Go program",
			"no happens-before prefix cache in the race build (scheduler state must stay in //go:norace code without maps)"},
		Scenarios: func(tier string) []*h.Scenario {
			var out []*h.Scenario
			for _, sc := range c12Scenarios(tier, false) {
				out = append(out, sc)
			}
			for _, sc := range c11ScenariosFor(tier, []string{"mem", "dir", "memdir"}) {
				sc.Linearizable = false
				sc.Extra = nil
				out = append(out, sc)
			}
			// requests racing on one upload session (the C01 scenarios)
			for _, sc := range c01Scenarios(tier) {
				sc.Extra = nil
				out = append(out, sc)
			}
			b := 1
			if tier == "thorough" {
				b = 2
			}
			for _, sc := range out {
				if sc.Conf != nil {
					c := *sc.Conf
					c.DebugLog = true // log arguments are read where the log call stands: part of the execution
					sc.Conf = &c
				}
				sc.Bound = b
				sc.IgnoreDeadlock = true
				sc.Name = "c13-" + sc.Name
			}
			return out
		},
		Budget: func(tier string) time.Duration {
			if tier == "thorough" {
				return 12 * time.Minute
			}
			return 75 * time.Second
		},
	})
}
