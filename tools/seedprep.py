#!/usr/bin/env python3
"""tools/seedprep.py <root> <Cxx> [emphasis]: create a scratch worktree <root>/<Cxx> of /repo HEAD and <root>/<Cxx>-out/prompt.txt
for a fresh sub-agent (property text, task, one-line descriptions of the earlier stored changes for that property to avoid)."""
import json, sys, glob, os, subprocess
root, pid = sys.argv[1], sys.argv[2]
emph = sys.argv[3] if len(sys.argv) > 3 else ""
os.makedirs(f"{root}/{pid}-out", exist_ok=True)
subprocess.run(["git", "-C", "/repo", "worktree", "add", "-q", "--detach", f"{root}/{pid}", "HEAD"], check=True)
prop = [json.loads(l) for l in open('/verif/properties.jsonl') if json.loads(l)['id'] == pid][0]
prev = []
for d in sorted(glob.glob(f'/verif/seeded/{pid}*/meta.json')):
    try:
        prev.append(json.load(open(d))['change'])
    except Exception:
        pass
q = prop['quantifier']
q = q['text'] if isinstance(q, dict) else q
t = f"""You are given a Go repository: olareg/olareg, a minimal OCI-conformant container registry (directory store = OCI layouts on disk, memory store, memory store layered over a read-only directory, upload sessions, referrers API, garbage collection, a cobra command line). Your private scratch copy is the git worktree {root}/{pid} (work ONLY there and in {root}/{pid}-out; never touch /repo or any other directory; do not look at /verif).

Environment: no network. For every go command export GOFLAGS=-mod=mod GOPROXY=off GOSUMDB=off GOTOOLCHAIN=local. The repository's suite is `go test -vet=off -count=1 ./...` (about a minute; the machine is heavily loaded by other jobs, so timing-based tests (TestCache, TestGarbageCollectUpload, TestServer/Dir/Garbage_Collect) sometimes fail spuriously - re-run a failing package once before you believe it).

The property (a semantic guarantee users of the registry rely on):

  {pid}: {prop['title']}
  Statement: {prop['statement']}
  Quantified over: {q}

Task: make ONE small, realistic change to the NON-test source of the repository (the kind of change that could slip through code review: a refactoring slip, a misplaced optimisation, a reordered pair of statements, a guard moved, a wrong variable, an off-by-one, an early return, a lock released a little early, a helper reused where it does not quite fit) such that
  1. the repository still compiles and the repository's existing test suite still passes, unedited;
  2. the property above is broken by it;
  3. the breakage does NOT show in ordinary use at once: it needs something specific to manifest - a particular interleaving of two requests or of a request with background work (timer, collection, eviction), a crash or fault at a particular point, a multi-step sequence of operations, an unusual but legal input or configuration, or two cooperating sites that each look fine alone.
{emph}
Changes of this kind made earlier for the same property - do something substantially DIFFERENT (another code path, another mechanism, another kind of trigger), not a variation of these:
""" + "".join(f"  - {c}\n" for c in prev) + f"""
Deliverables:
  a. the change applied in the worktree {root}/{pid} (uncommitted; modify existing non-test files only);
  b. a demonstration: one NEW Go test file (name ending in _test.go, in whichever package directory of the worktree suits it, left untracked in the worktree) whose test(s) FAIL with your change and PASS on the unchanged code (check both: use `git diff > {root}/{pid}-out/p.diff; git apply -R {root}/{pid}-out/p.diff`; re-apply afterwards). The demonstration must be deterministic: if it needs a particular interleaving, force the order by construction (hooks through existing seams, holding a lock, calling the internal steps in order) rather than by repetition. It may use unexported identifiers (package-internal test) if needed;
  c. {root}/{pid}-out/notes.md: what the change is, why it breaks the property, exactly what is needed for it to manifest, and the commands you ran with their results (suite passes with the change; demo fails with, passes without).
Run the full suite with your change before you finish. Leave the worktree with the change applied and the demo file present. Do not commit. Do not think at great length before acting: pick a candidate quickly, try it, iterate; keep every single message and file write moderate in size. Keep the report you return short: the change in two sentences and what it needs to manifest.
"""
open(f'{root}/{pid}-out/prompt.txt', 'w').write(t)
print(f"{root}/{pid}-out/prompt.txt")
