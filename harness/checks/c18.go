package checks

import (
	"encoding/json"
	"fmt"
	"reflect"
	"sort"
	"strings"
	"time"
	"unsafe"

	"github.com/opencontainers/go-digest"

	"github.com/olareg/olareg/internal/verif/h"
	"github.com/olareg/olareg/types"
)

// C18 — the repository index keeps its invariants under any insert/remove sequence.
// Explicit-state closure over the exact dump of the real types.Index.

type c18State struct {
	Idx  types.Index
	Tags map[string]string // model: tag -> digest of the last insertion, minus removals
	// Child: digests handed to AddChildren and neither inserted at top level (AddDesc takes a digest out of the child
	// list) nor removed by digest since: "recorded as children", so lookup by digest has to find them
	Child map[string]bool
}

func c18Digests(n int) []digest.Digest {
	var ds []digest.Digest
	for i := 0; i < n; i++ {
		ds = append(ds, digest.Canonical.FromString(fmt.Sprintf("manifest-%d", i+1)))
	}
	return ds
}

func c18Children(idx *types.Index) []types.Descriptor {
	v := reflect.ValueOf(idx).Elem().FieldByName("childManifests")
	v = reflect.NewAt(v.Type(), unsafe.Pointer(v.UnsafeAddr())).Elem()
	return v.Interface().([]types.Descriptor)
}

func c18Specs(tier string) []*h.SeqSpec {
	nd := 2
	if tier == "thorough" {
		nd = 3
	}
	ds := c18Digests(nd)
	tags := []string{"a", "b"}
	subjs := []string{digest.Canonical.FromString("subject-1").String(), digest.Canonical.FromString("subject-2").String()}
	st := func(w *h.World) *c18State { return w.M.(*c18State) }
	dn := func(d digest.Digest) string {
		for i, x := range ds {
			if x == d {
				return fmt.Sprintf("d%d", i+1)
			}
		}
		return "d?"
	}
	desc := func(d digest.Digest) types.Descriptor {
		return types.Descriptor{MediaType: types.MediaTypeOCI1Manifest, Digest: d, Size: 10}
	}
	var ops []h.Op
	// check applied after every mutation: the clauses of the statement that relate the state before and after
	addOp := func(name string, f func(s *c18State) []h.Violation) {
		ops = append(ops, h.Op{Name: name, Do: func(w *h.World) []h.Violation { return f(st(w)) }})
	}
	childOpts := func(d digest.Digest) [][]digest.Digest {
		out := [][]digest.Digest{nil}
		for _, o := range ds {
			if o != d {
				out = append(out, []digest.Digest{o})
			}
		}
		return out
	}
	mkOpts := func(ch []digest.Digest) ([]types.IndexOpt, string) {
		if ch == nil {
			return nil, ""
		}
		var cds []types.Descriptor
		var names []string
		for _, c := range ch {
			cds = append(cds, desc(c))
			names = append(names, dn(c))
		}
		return []types.IndexOpt{types.IndexWithChildren(cds)}, " children{" + strings.Join(names, ",") + "}"
	}
	for _, d := range ds {
		d := d
		for _, ch := range childOpts(d) {
			opts, on := mkOpts(ch)
			addOp("AddDesc "+dn(d)+on, func(s *c18State) []h.Violation {
				s.Idx.AddDesc(desc(d), opts...)
				delete(s.Child, d.String())
				return nil
			})
			for _, t := range tags {
				t := t
				addOp("AddDesc "+dn(d)+" tag="+t+on, func(s *c18State) []h.Violation {
					dd := desc(d)
					dd.Annotations = map[string]string{types.AnnotRefName: t}
					s.Idx.AddDesc(dd, opts...)
					delete(s.Child, d.String())
					s.Tags[t] = d.String()
					return nil
				})
			}
			for si, sj := range subjs {
				sj := sj
				addOp(fmt.Sprintf("AddDesc %s referrer=s%d%s", dn(d), si+1, on), func(s *c18State) []h.Violation {
					dd := desc(d)
					dd.MediaType = types.MediaTypeOCI1ManifestList
					dd.Annotations = map[string]string{types.AnnotReferrerSubject: sj}
					s.Idx.AddDesc(dd, opts...)
					delete(s.Child, d.String())
					return nil
				})
			}
		}
	}
	for _, d := range ds {
		d := d
		addOp("RmDesc "+dn(d), func(s *c18State) []h.Violation {
			s.Idx.RmDesc(types.Descriptor{Digest: d})
			delete(s.Child, d.String())
			for t, x := range s.Tags {
				if x == d.String() {
					delete(s.Tags, t)
				}
			}
			// removing a digest removes every reference to it
			var vs []h.Violation
			for _, m := range s.Idx.Manifests {
				if m.Digest == d {
					vs = append(vs, h.V("digest-removal-complete", "rmdesc-digest-leaves-entry", "RmDesc(%s) left a top-level entry %v", dn(d), m.Annotations))
				}
			}
			for _, m := range c18Children(&s.Idx) {
				if m.Digest == d {
					vs = append(vs, h.V("digest-removal-complete", "rmdesc-digest-leaves-child", "RmDesc(%s) left a child entry", dn(d)))
				}
			}
			if _, err := s.Idx.GetDesc(d.String()); err == nil {
				vs = append(vs, h.V("digest-removal-complete", "rmdesc-digest-still-found", "GetDesc(%s) succeeds after RmDesc of the digest", dn(d)))
			}
			return vs
		})
		for _, t := range tags {
			t := t
			addOp("RmDesc "+dn(d)+" tag="+t, func(s *c18State) []h.Violation {
				_, errBefore := s.Idx.GetDesc(d.String())
				s.Idx.RmDesc(types.Descriptor{Digest: d, Annotations: map[string]string{types.AnnotRefName: t}})
				if s.Tags[t] == d.String() {
					delete(s.Tags, t)
				}
				if _, err := s.Idx.GetDesc(d.String()); errBefore == nil && err != nil {
					return []h.Violation{h.V("tag-removal-keeps-digest", "rmdesc-tag-loses-digest", "GetDesc(%s) fails after removing tag %s from it", dn(d), t)}
				}
				return nil
			})
		}
	}
	for _, t := range tags {
		t := t
		addOp("RmDesc tag="+t, func(s *c18State) []h.Violation {
			s.Idx.RmDesc(types.Descriptor{Annotations: map[string]string{types.AnnotRefName: t}})
			delete(s.Tags, t)
			return nil
		})
	}
	for si, sj := range subjs {
		sj := sj
		addOp(fmt.Sprintf("RmDesc referrer=s%d", si+1), func(s *c18State) []h.Violation {
			s.Idx.RmDesc(types.Descriptor{Annotations: map[string]string{types.AnnotReferrerSubject: sj}})
			if _, err := s.Idx.GetByAnnotation(types.AnnotReferrerSubject, sj); err == nil {
				return []h.Violation{h.V("subject-removal", "rmdesc-subject-still-found", "response for subject still found after RmDesc by subject")}
			}
			return nil
		})
	}
	for _, d := range ds {
		d := d
		addOp("AddChildren "+dn(d), func(s *c18State) []h.Violation {
			// a digest is recorded as a child at most once (the stores keep that precondition; a second record of the same
			// digest is outside the statement); a digest that also has a top-level entry may be recorded
			for _, m := range c18Children(&s.Idx) {
				if m.Digest == d {
					return nil
				}
			}
			s.Idx.AddChildren([]types.Descriptor{desc(d)})
			s.Child[d.String()] = true
			return nil
		})
	}
	sp := &h.SeqSpec{
		Name: fmt.Sprintf("c18-%ddigests", nd),
		Init: func(w *h.World) {
			w.M = &c18State{Idx: types.Index{SchemaVersion: 2, MediaType: types.MediaTypeOCI1ManifestList, Manifests: []types.Descriptor{}}, Tags: map[string]string{}, Child: map[string]bool{}}
		},
		Ops: ops,
		Model: func(w *h.World) string {
			s := st(w)
			b, _ := json.Marshal(s.Tags)
			c, _ := json.Marshal(s.Child)
			return h.Dump(&s.Idx) + string(b) + string(c)
		},
		Probe: func(w *h.World) []h.Violation {
			vs := c18Probe(st(w), ds, tags, subjs, dn)
			// shape: does the history give one digest both a tag and a referrers-response role?
			mixed := false
			for _, d := range ds {
				t, r := false, false
				for _, n := range w.Hist {
					if strings.HasPrefix(n, "AddDesc "+dn(d)+" tag=") {
						t = true
					}
					if strings.HasPrefix(n, "AddDesc "+dn(d)+" referrer=") {
						r = true
					}
				}
				if t && r {
					mixed = true
				}
			}
			if mixed {
				for i := range vs {
					switch vs[i].Rule {
					case "tag-unique", "tag-lookup-last-insertion", "subject-unique", "annotation-lookup", "untagged-once":
						vs[i].Sig += ":digest-is-both-tagged-and-referrers-response"
					}
				}
			}
			return vs
		},
		NonTriv:   func(w *h.World) bool { s := st(w); return len(s.Idx.Manifests)+len(c18Children(&s.Idx)) > 0 },
		MaxDepth:  200,
		MaxStates: 2000000,
		Chunk:     400,
	}
	return []*h.SeqSpec{sp}
}

func c18Probe(s *c18State, ds []digest.Digest, tags, subjs []string, dn func(digest.Digest) string) []h.Violation {
	var vs []h.Violation
	add := func(rule, sig, f string, a ...any) { vs = append(vs, h.V(rule, sig, f, a...)) }
	idx := &s.Idx
	children := c18Children(idx)
	// tag -> at most one descriptor, lookup = last insertion
	for _, t := range tags {
		n := 0
		for _, m := range idx.Manifests {
			if m.Annotations != nil && m.Annotations[types.AnnotRefName] == t {
				n++
			}
		}
		if n > 1 {
			add("tag-unique", "tag-on-several-entries", "tag %s is carried by %d entries: %s", t, n, c18Show(idx, dn))
		}
		d, err := idx.GetDesc(t)
		want, ok := s.Tags[t]
		if ok && (err != nil || d.Digest.String() != want) {
			add("tag-lookup-last-insertion", "tag-lookup-wrong", "GetDesc(%s) = %v,%v; model says %s; index %s", t, d.Digest, err, want, c18Show(idx, dn))
		}
		if !ok && err == nil {
			add("tag-lookup-last-insertion", "removed-tag-found", "GetDesc(%s) finds %s but the tag was removed; index %s", t, dn(d.Digest), c18Show(idx, dn))
		}
	}
	// recorded as a child: lookup by digest succeeds
	for _, d := range ds {
		if s.Child[d.String()] {
			if _, err := idx.GetDesc(d.String()); err != nil {
				add("lookup-by-digest", "recorded-child-not-found", "%s was handed to AddChildren and neither inserted at top level nor removed by digest since, but GetDesc fails: %s", dn(d), c18Show(idx, dn))
			}
		}
	}
	// a subject has at most one response
	for i, sj := range subjs {
		n := 0
		for _, m := range idx.Manifests {
			if m.Annotations != nil && m.Annotations[types.AnnotReferrerSubject] == sj {
				n++
			}
		}
		if n > 1 {
			add("subject-unique", "subject-with-several-responses", "subject s%d has %d responses: %s", i+1, n, c18Show(idx, dn))
		}
		d, err := idx.GetByAnnotation(types.AnnotReferrerSubject, sj)
		if (n > 0) != (err == nil) {
			add("annotation-lookup", "annotation-lookup-wrong", "GetByAnnotation(subject s%d) = %v,%v with %d matching entries", i+1, d.Digest, err, n)
		}
	}
	// an untagged digest is listed at most once; lookup by digest
	for _, d := range ds {
		plain, top := 0, false
		for _, m := range idx.Manifests {
			if m.Digest == d {
				top = true
				if len(m.Annotations) == 0 || (m.Annotations[types.AnnotRefName] == "" && m.Annotations[types.AnnotReferrerSubject] == "") {
					plain++
				}
			}
		}
		if plain > 1 {
			add("untagged-once", "untagged-digest-listed-twice", "%s is listed %d times without a tag: %s", dn(d), plain, c18Show(idx, dn))
		}
		child := false
		for _, m := range children {
			if m.Digest == d {
				child = true
			}
		}
		_, err := idx.GetDesc(d.String())
		if (top || child) != (err == nil) {
			add("digest-lookup-exact", fmt.Sprintf("digest-lookup-wrong:top=%v,child=%v,found=%v,emptytop=%v", top, child, err == nil, len(idx.Manifests) == 0),
				"GetDesc(%s): top-level=%v child=%v but err=%v; index %s", dn(d), top, child, err, c18Show(idx, dn))
		}
	}
	// wildcard annotation lookup
	for _, key := range []string{types.AnnotRefName, types.AnnotReferrerSubject} {
		n := 0
		for _, m := range idx.Manifests {
			if _, ok := m.Annotations[key]; ok {
				n++
			}
		}
		if _, err := idx.GetByAnnotation(key, ""); (n > 0) != (err == nil) {
			add("annotation-lookup", "annotation-wildcard-wrong", "GetByAnnotation(%s, \"\") err=%v with %d entries carrying the key", key, err, n)
		}
	}
	// copies are independent of the original
	before := h.Dump(idx)
	cp := idx.Copy()
	nz := func(s string) string { return strings.ReplaceAll(strings.ReplaceAll(s, "nils", "[]"), "nilm", "map{}") }
	if nz(h.Dump(&cp)) != nz(before) {
		add("copy-equal", "copy-differs", "Copy() differs from the original:\n%s\n%s", before, h.Dump(&cp))
	}
	for i := range cp.Manifests {
		if cp.Manifests[i].Annotations != nil {
			cp.Manifests[i].Annotations["x"] = "y"
			delete(cp.Manifests[i].Annotations, types.AnnotRefName)
		}
		cp.Manifests[i].Size = 999
	}
	cc := c18Children(&cp)
	for i := range cc {
		cc[i].Size = 999
	}
	if cp.Annotations != nil {
		cp.Annotations["x"] = "y"
	}
	for _, d := range ds {
		cp.AddDesc(types.Descriptor{Digest: d, Annotations: map[string]string{types.AnnotRefName: "zz"}})
		cp.RmDesc(types.Descriptor{Digest: d})
	}
	if after := h.Dump(idx); after != before {
		add("copy-independent", "copy-aliases-original", "mutating a Copy() changed the original:\nbefore %s\nafter  %s", before, after)
	}
	return vs
}

func c18Show(idx *types.Index, dn func(digest.Digest) string) string {
	var parts []string
	for _, m := range idx.Manifests {
		var an []string
		for k, v := range m.Annotations {
			k = k[strings.LastIndex(k, ".")+1:]
			if len(v) > 12 {
				v = v[len(v)-6:]
			}
			an = append(an, k+"="+v)
		}
		sort.Strings(an)
		parts = append(parts, dn(m.Digest)+"{"+strings.Join(an, ",")+"}")
	}
	var ch []string
	for _, m := range c18Children(idx) {
		ch = append(ch, dn(m.Digest))
	}
	return "[" + strings.Join(parts, " ") + "] children[" + strings.Join(ch, " ") + "]"
}

func init() {
	h.RegisterSeq(&h.SeqCheck{
		ID:    "C18",
		Level: "model_checking",
		Rule: "breadth-first search over all sequences of AddDesc (untagged / tag / referrer-subject, with and without IndexWithChildren), RmDesc (digest, digest+tag, tag alone, subject alone) and AddChildren on the real types.Index, " +
			"to closure of the exact dump (entry order preserved); in every distinct state GetDesc, GetByAnnotation and Copy are checked against the invariants of the statement and a tag map model; non-trivial = non-empty index",
		Assume: []string{"universe: 2 digests (quick) / 3 digests (thorough), tags {a,b}, subjects {s1,s2}", "AddChildren is only applied to digests not yet recorded (the precondition its callers keep)",
			"\"removing a tag keeps the digest reachable\" is demanded for the digest+tag form of RmDesc (the documented tag-alone form deletes the entries)"},
		Specs: c18Specs,
		Budget: func(tier string) time.Duration {
			if tier == "thorough" {
				return 12 * time.Minute
			}
			return 100 * time.Second
		},
	})
}
