package h

import (
	"encoding/json"
	"fmt"
	"os"
	"runtime"
	"sort"
	"strings"
	"time"

	"github.com/olareg/olareg/internal/verif/vrt"
)

// SEQ: explicit-state breadth-first search over request histories on the real
// implementation. A state is represented by a shortest history reaching it; a successor is
// computed by replaying that history on a fresh instance plus one more operation.

type Op struct {
	Name string
	Do   func(w *World) []Violation
}

type SeqSpec struct {
	Name      string
	Conf      *Conf
	RC        vrt.Config
	Init      func(w *World)
	Ops       []Op
	Model     func(w *World) string
	Probe     func(w *World) []Violation
	NonTriv   func(w *World) bool
	MaxDepth  int
	MaxStates int
	Chunk     int // states per expansion job (default 6)
	// Final, if set, runs after the last operation of every history before the fingerprint
	// (e.g. Close + reopen comparisons that must not influence successors are done in Probe instead).
}

type SeqCheck struct {
	ID     string
	Level  string
	Rule   string
	Assume []string
	Specs  func(tier string) []*SeqSpec
	Budget func(tier string) time.Duration
}

var SeqChecks = map[string]*SeqCheck{}

// SeqExtras run after the exploration of a SEQ check (small exhaustive tables).
var SeqExtras = map[string]func(rep *Report){}

func RegisterSeq(c *SeqCheck) {
	SeqChecks[c.ID] = c
	id := c.ID
	if _, ok := Checks[id]; !ok {
		Checks[id] = func(tier string) int { return RunSeq(id, tier) }
	}
}

type seqArg struct {
	ID      string     `json:"id"`
	Tier    string     `json:"tier"`
	Spec    int        `json:"spec"`
	Mode    string     `json:"mode"` // expand | probe
	Hists   [][]uint16 `json:"hists"`
	Verbose bool       `json:"verbose"`
}

type succOut struct {
	FP   string      `json:"fp"`
	Viol []Violation `json:"viol,omitempty"`
	Dead bool        `json:"dead,omitempty"`
	NReq int         `json:"nreq"`
}

type expandOut struct {
	Succ [][]succOut `json:"succ"` // per history, per op
}

type probeOut struct {
	Viol    [][]Violation `json:"viol"`
	NonTriv []bool        `json:"nontriv"`
	Trace   [][]string    `json:"trace,omitempty"`
	FP      []string      `json:"fp"`
	Full    []string      `json:"full,omitempty"`
}

var specCache = map[string][]*SeqSpec{}

func getSpecs(id, tier string) []*SeqSpec {
	k := id + "/" + tier
	if s, ok := specCache[k]; ok {
		return s
	}
	c := SeqChecks[id]
	if c == nil {
		panic("unknown seq check " + id)
	}
	s := c.Specs(tier)
	specCache[k] = s
	return s
}

func init() {
	RegisterJob("seq", func(arg json.RawMessage) (any, error) {
		var a seqArg
		if err := json.Unmarshal(arg, &a); err != nil {
			return nil, err
		}
		sp := getSpecs(a.ID, a.Tier)[a.Spec]
		switch a.Mode {
		case "expand":
			out := expandOut{}
			for _, hst := range a.Hists {
				var row []succOut
				for k := range sp.Ops {
					hh := append(append([]uint16{}, hst...), uint16(k))
					r := sp.runHist(hh, false, false)
					row = append(row, succOut{FP: r.fp, Viol: r.lastViol, Dead: r.dead, NReq: r.nreq})
				}
				out.Succ = append(out.Succ, row)
			}
			return out, nil
		case "probe":
			out := probeOut{}
			for _, hst := range a.Hists {
				r := sp.runHist(hst, true, a.Verbose)
				out.Viol = append(out.Viol, r.probeViol)
				out.NonTriv = append(out.NonTriv, r.nontriv)
				out.FP = append(out.FP, r.fp)
				if a.Verbose {
					out.Trace = append(out.Trace, r.trace)
					out.Full = append(out.Full, r.full)
				}
			}
			return out, nil
		}
		return nil, fmt.Errorf("bad mode %q", a.Mode)
	})
}

type histResult struct {
	fp        string
	full      string
	lastViol  []Violation
	probeViol []Violation
	dead      bool
	nontriv   bool
	trace     []string
	nreq      int
}

func (sp *SeqSpec) names(hist []uint16) []string {
	out := make([]string, len(hist))
	for i, k := range hist {
		out[i] = sp.Ops[k].Name
	}
	return out
}

// runHist executes one history on a fresh world. lastViol holds the violations of the last
// operation only (earlier ones were reported when their transition was first explored).
func (sp *SeqSpec) runHist(hist []uint16, probe, verbose bool) (res histResult) {
	var w *World
	defer func() {
		if p := recover(); p != nil {
			if !vrt.IsAbort(p) {
				panic(p)
			}
			// deadlock or horizon inside a sequential history
			sig, detail := AbortSignature()
			v := V("hang", "hang:"+sig, "execution aborted (%v): %s", p, detail)
			res.lastViol = append(res.lastViol, v)
			res.dead = true
			res.fp = "ABORT:" + HashStr(strings.Join(sp.names(hist), "|"))
		}
		for i := range res.lastViol {
			res.lastViol[i].Conf = sp.Name
			res.lastViol[i].History = sp.names(hist)
		}
		for i := range res.probeViol {
			res.probeViol[i].Conf = sp.Name
			res.probeViol[i].History = sp.names(hist)
		}
		if w != nil {
			res.trace = w.Trace
			res.nreq = w.nreq
			w.Destroy()
		}
	}()
	w = NewWorld(sp.Conf, sp.RC)
	w.Verbose = verbose
	w.Hist = sp.names(hist)
	if sp.Init != nil {
		sp.Init(w)
	}
	for i, k := range hist {
		if verbose {
			w.Trace = append(w.Trace, "== op "+sp.Ops[k].Name)
		}
		w.AutoViol = nil
		vs := sp.Ops[k].Do(w)
		vrt.Quiesce()
		vs = append(vs, w.AutoViol...)
		for _, b := range vrt.Blocked() {
			vs = append(vs, V("stuck-thread", "stuck-thread:"+b.Name+":"+b.Op, "thread %s is blocked on %s (%s) at quiescence", b.Name, b.Op, b.Info))
		}
		if i == len(hist)-1 {
			res.lastViol = vs
		}
		if w.Dead != "" {
			res.dead = true
			break
		}
	}
	model := ""
	if sp.Model != nil {
		model = sp.Model(w)
	}
	res.fp, res.full = w.Fingerprint(model)
	if !verbose {
		res.full = ""
	}
	if probe && !res.dead {
		if sp.NonTriv != nil {
			res.nontriv = sp.NonTriv(w)
		} else {
			res.nontriv = len(hist) > 0
		}
		if sp.Probe != nil {
			w.AutoViol = nil
			res.probeViol = sp.Probe(w)
			res.probeViol = append(res.probeViol, w.AutoViol...)
		}
	}
	return res
}

// AbortSignature summarises where the threads of an aborted execution were blocked.
func AbortSignature() (sig, detail string) {
	var parts, details []string
	for _, t := range vrt.Threads() {
		if t.Stack == "" {
			continue
		}
		fr := vrt.FrameSummary(t.Stack, 3)
		if len(fr) == 0 {
			continue
		}
		parts = append(parts, fr[0])
		details = append(details, fmt.Sprintf("%s blocked in %s", t.Name, strings.Join(fr, " <- ")))
	}
	// main's own stack is the current one
	fr := vrt.FrameSummary(string(debugStack()), 4)
	if len(fr) > 0 {
		parts = append(parts, "main@"+fr[0])
		details = append(details, "main in "+strings.Join(fr, " <- "))
	}
	sort.Strings(parts)
	return strings.Join(parts, "+"), strings.Join(details, "; ")
}

// RunSeq is the coordinator of a SEQ check.
func RunSeq(id, tier string) int {
	c := SeqChecks[id]
	rep := NewReport(id, tier, c.Level)
	rep.Rule = c.Rule
	rep.Assume = c.Assume
	RunSeqInto(rep, id, tier, time.Time{})
	if x, ok := SeqExtras[id]; ok {
		x(rep)
	}
	return rep.Emit()
}

func workers() int {
	n := runtime.NumCPU()
	if n > 16 {
		n = 16
	}
	if n < 1 {
		n = 1
	}
	return n
}

// RunSeqInto explores all specs of a SEQ check and accumulates into rep.
func RunSeqInto(rep *Report, id, tier string, deadline time.Time) {
	c := SeqChecks[id]
	specs := getSpecs(id, tier)
	if deadline.IsZero() {
		b := 10 * time.Minute
		if c.Budget != nil {
			b = c.Budget(tier)
		}
		deadline = time.Now().Add(b)
	}
	pool := NewPool(workers())
	defer pool.Close()
	for si, sp := range specs {
		chunk := sp.Chunk
		if chunk <= 0 {
			chunk = 6
		}
		part := map[string]any{"spec": sp.Name, "ops": len(sp.Ops)}
		mk := func(mode string, hists [][]uint16, verbose bool) Job {
			return MkJob("seq", seqArg{ID: id, Tier: tier, Spec: si, Mode: mode, Hists: hists, Verbose: verbose})
		}
		// initial state, twice (determinism self test)
		r0 := pool.Run([]Job{mk("probe", [][]uint16{{}}, true), mk("probe", [][]uint16{{}}, true)}, nil)
		var p0, p1 probeOut
		if !decode(rep, r0[0], &p0) || !decode(rep, r0[1], &p1) {
			continue
		}
		if p0.FP[0] != p1.FP[0] {
			rep.Infra("nondeterministic replay of the initial state of %s:\n%s", sp.Name, diffLines(p0.Full[0], p1.Full[0]))
			continue
		}
		visited := map[string]struct{}{p0.FP[0]: {}}
		for _, v := range p0.Viol[0] {
			rep.AddViolation(v)
		}
		rep.States++
		rep.Traces += 2
		frontier := [][]uint16{{}}
		depth := 0
		capped := false
		closed := false
		var deepest []uint16
		nontriv := 0
		selfTested := 0
		for depth < sp.MaxDepth && len(frontier) > 0 {
			if time.Now().After(deadline) {
				rep.Cap("%s: time budget reached at depth %d (%d states in frontier unexpanded)", sp.Name, depth, len(frontier))
				capped = true
				break
			}
			var jobs []Job
			var jobH [][][]uint16
			for i := 0; i < len(frontier); i += chunk {
				j := i + chunk
				if j > len(frontier) {
					j = len(frontier)
				}
				jobs = append(jobs, mk("expand", frontier[i:j], false))
				jobH = append(jobH, frontier[i:j])
			}
			// determinism self-test: repeat the first expansion job of the first levels
			if selfTested < 3 && len(jobs) > 0 {
				jobs = append(jobs, jobs[0])
				jobH = append(jobH, jobH[0])
			}
			stop := func() bool { return time.Now().After(deadline) }
			results := pool.Run(jobs, stop)
			if selfTested < 3 && len(jobs) > 1 {
				a, b := results[0], results[len(results)-1]
				if string(a.Out) != string(b.Out) && a.Error == "" && b.Error == "" {
					rep.Infra("nondeterministic replay in %s at depth %d: the same expansion gave different results", sp.Name, depth)
				}
				results = results[:len(results)-1]
				jobH = jobH[:len(jobH)-1]
				selfTested++
			}
			var next [][]uint16
			skipped := 0
			for ji, jr := range results {
				if IsSkipped(jr) {
					skipped++
					continue
				}
				if jr.Died {
					// fatal runtime error or hang inside the implementation: find the culprit history by single runs
					rep.diagnoseDeath(pool, mk, sp, jobH[ji], jr)
					continue
				}
				var eo expandOut
				if !decode(rep, jr, &eo) {
					continue
				}
				for hi, row := range eo.Succ {
					hst := jobH[ji][hi]
					for k, so := range row {
						rep.Trans++
						rep.Traces++
						rep.Evals += so.NReq
						for _, v := range so.Viol {
							rep.AddViolation(v)
						}
						if _, ok := visited[so.FP]; ok {
							continue
						}
						visited[so.FP] = struct{}{}
						rep.States++
						nh := append(append([]uint16{}, hst...), uint16(k))
						if !so.Dead {
							next = append(next, nh)
						}
					}
				}
			}
			if skipped > 0 {
				rep.Cap("%s: time budget reached inside depth %d (%d expansion jobs skipped)", sp.Name, depth, skipped)
				capped = true
			}
			if sp.MaxStates > 0 && len(visited) > sp.MaxStates {
				rep.Cap("%s: state cap %d reached at depth %d", sp.Name, sp.MaxStates, depth+1)
				capped = true
			}
			// probe the new states
			var pjobs []Job
			var pH [][][]uint16
			for i := 0; i < len(next); i += chunk * 2 {
				j := i + chunk*2
				if j > len(next) {
					j = len(next)
				}
				pjobs = append(pjobs, mk("probe", next[i:j], false))
				pH = append(pH, next[i:j])
			}
			presults := pool.Run(pjobs, stop)
			pskipped := 0
			for ji, jr := range presults {
				if IsSkipped(jr) {
					pskipped++
					continue
				}
				if jr.Died {
					rep.diagnoseDeath(pool, mk, sp, pH[ji], jr)
					continue
				}
				var po probeOut
				if !decode(rep, jr, &po) {
					continue
				}
				for hi := range po.Viol {
					rep.Traces++
					for _, v := range po.Viol[hi] {
						rep.AddViolation(v)
					}
					if po.NonTriv[hi] {
						nontriv++
					}
				}
			}
			if pskipped > 0 {
				rep.Cap("%s: time budget reached while probing depth %d (%d probe jobs skipped)", sp.Name, depth+1, pskipped)
				capped = true
			}
			if len(next) > 0 {
				deepest = next[len(next)-1]
			}
			frontier = next
			depth++
			if capped {
				break
			}
		}
		if len(frontier) == 0 && !capped {
			closed = true
		}
		rep.NonTrivial += nontriv
		part["states"] = len(visited)
		part["depth_completed"] = depth
		part["closed"] = closed
		part["frontier_left"] = len(frontier)
		rep.Parts = append(rep.Parts, part)
		// samples: transcript of the deepest history and the alphabet
		if deepest != nil && len(rep.Samples) < 6 {
			rs := pool.Run([]Job{mk("probe", [][]uint16{deepest}, true)}, nil)
			var po probeOut
			if rs[0].Error == "" && json.Unmarshal(rs[0].Out, &po) == nil && len(po.Trace) > 0 {
				rep.Samples = append(rep.Samples, map[string]any{"spec": sp.Name, "history": sp.names(deepest), "transcript": clip(po.Trace[0], 40)})
			}
		}
		if si == 0 {
			var names []string
			for _, o := range sp.Ops {
				names = append(names, o.Name)
			}
			rep.Bounds["alphabet_"+sp.Name] = names
		}
		rep.Bounds["max_depth_"+sp.Name] = sp.MaxDepth
	}
}

func clip(s []string, n int) []string {
	if len(s) > n {
		return append(append([]string{}, s[:n]...), fmt.Sprintf("… (%d more lines)", len(s)-n))
	}
	return s
}

func decode(rep *Report, jr JobResult, out any) bool {
	if jr.Error != "" {
		rep.Infra("worker: %s\n%s", jr.Error, jr.Log)
		return false
	}
	if err := json.Unmarshal(jr.Out, out); err != nil {
		rep.Infra("decode: %v", err)
		return false
	}
	return true
}

// diagnoseDeath re-runs the histories of a job whose worker died one by one to find the
// history that kills the process (fatal runtime error, unrecoverable hang); that history is a
// violation ("the handler must return"), everything else is an infrastructure error.
func (rep *Report) diagnoseDeath(pool *Pool, mk func(string, [][]uint16, bool) Job, sp *SeqSpec, hists [][]uint16, jr JobResult) {
	found := false
	for _, hst := range hists {
		for k := -1; k < len(sp.Ops); k++ {
			hh := append([]uint16{}, hst...)
			if k >= 0 {
				hh = append(hh, uint16(k))
			}
			r := pool.Run([]Job{mk("probe", [][]uint16{hh}, false)}, nil)[0]
			if r.Died {
				found = true
				sig := "process-death:" + deathSig(r.Log)
				v := V("no-fatal-error", sig, "the worker process died or hung while executing this history: %s\n%s", r.Error, tail(r.Log, 1500))
				v.Conf = sp.Name
				v.History = sp.names(hh)
				rep.AddViolation(v)
				if k == -1 {
					break
				}
			}
		}
	}
	if !found {
		if strings.Contains(jr.Error, "timed out") {
			// the batch exceeded the wall-clock limit of a job, yet every history of it completes on its own: the machine
			// is loaded (a hang of the code under test is found by the scheduler as "no enabled thread", not by this clock).
			// What the batch would have covered is reported as not covered.
			rep.Cap("%s: a worker exceeded its wall-clock limit (%s) on a batch of %d histories that each complete on their own (machine load); the batch was re-run history by history", sp.Name, jr.Error, len(hists))
			return
		}
		rep.Infra("worker died but no single history reproduces it: %s\n%s", jr.Error, jr.Log)
	}
}

func deathSig(log string) string {
	for _, ln := range strings.Split(log, "\n") {
		if strings.HasPrefix(ln, "fatal error:") || strings.HasPrefix(ln, "panic:") {
			return strings.TrimSpace(ln)
		}
	}
	return "unknown"
}

func diffLines(a, b string) string {
	al, bl := strings.Split(a, "\n"), strings.Split(b, "\n")
	var out []string
	for i := 0; i < len(al) && i < len(bl); i++ {
		if al[i] != bl[i] {
			x, y := al[i], bl[i]
			// find first differing offset
			j := 0
			for j < len(x) && j < len(y) && x[j] == y[j] {
				j++
			}
			lo := j - 80
			if lo < 0 {
				lo = 0
			}
			hi := func(s string) int {
				if j+120 < len(s) {
					return j + 120
				}
				return len(s)
			}
			out = append(out, fmt.Sprintf("line %d offset %d:\n  A: …%s\n  B: …%s", i, j, x[lo:hi(x)], y[lo:hi(y)]))
			if len(out) > 3 {
				break
			}
		}
	}
	if len(al) != len(bl) {
		out = append(out, fmt.Sprintf("line counts differ: %d vs %d", len(al), len(bl)))
	}
	return strings.Join(out, "\n")
}

// ReplaySeq re-executes a recorded history verbosely.
func ReplaySeq(id, tier, specName string, history []string) int {
	specs := getSpecs(id, tier)
	for _, sp := range specs {
		if sp.Name != specName {
			continue
		}
		var hist []uint16
		for _, n := range history {
			found := false
			for k, o := range sp.Ops {
				if o.Name == n {
					hist = append(hist, uint16(k))
					found = true
					break
				}
			}
			if !found {
				fmt.Fprintf(os.Stderr, "operation %q not in the alphabet of %s\n", n, specName)
				return 2
			}
		}
		r := sp.runHist(hist, true, true)
		for _, l := range r.trace {
			fmt.Println(l)
		}
		all := append(append([]Violation{}, r.lastViol...), r.probeViol...)
		for _, v := range all {
			fmt.Printf("VIOLATION property=%s rule=%s sig=%s\n  %s\n", id, v.Rule, v.Sig, indent(v.Detail))
		}
		if os.Getenv("VERIF_DUMPSTATE") != "" {
			fmt.Println(r.full)
		}
		if len(all) > 0 {
			return 1
		}
		return 0
	}
	fmt.Fprintf(os.Stderr, "spec %q not found\n", specName)
	return 2
}

// Checks maps a property id to its runner.
var Checks = map[string]func(tier string) int{}

// Replayers re-execute a recorded violation.
var Replayers = map[string]func(tier string, v Violation) int{}

func Replay(id, tier string, v Violation) int {
	// a check may combine engines: find the engine that knows the configuration the violation names
	if _, ok := v.Extra["schedule"]; ok {
		for sid := range SchedChecks {
			if strings.HasPrefix(sid, id) {
				for _, sc := range getScenarios(sid, tier) {
					if sc.Name == v.Conf {
						return ReplaySched(sid, tier, v)
					}
				}
			}
		}
	}
	if _, ok := v.Extra["crash_before_call"]; ok {
		if _, ok := CrashChecks[id]; ok {
			return ReplayCrash(id, tier, v)
		}
	}
	for sid := range SeqChecks {
		if strings.HasPrefix(sid, id) {
			for _, sp := range getSpecs(sid, tier) {
				if sp.Name == v.Conf {
					return ReplaySeq(sid, tier, v.Conf, v.History)
				}
			}
		}
	}
	if r, ok := Replayers[id]; ok {
		return r(tier, v)
	}
	fmt.Fprintln(os.Stderr, "no replayer for", id, "configuration", v.Conf)
	return 2
}

// DiffLines is diffLines for the check packages.
func DiffLines(a, b string) string { return diffLines(a, b) }
