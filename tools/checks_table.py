NA = {}
TRUSTED = ("Trusted base: the rewriter and shims preserve the semantics of the code they instrument (original statements stay in place; hooks are inserted before them); "
           "the Go toolchain; the reference model written from the property statement. Bounded: universe, depth and caps are reported in the evidence.")

add("C03", "SEQ", "model_checking", "explicit-state BFS over request histories on the implementation, to closure",
    "All histories of tag pushes, digest pushes, tag deletes and digest deletes over 2 manifests x 3-4 tags are explored breadth-first on the real handler (both stores) until the canonical state set is closed; in every distinct state tag resolution, the listing and the whole n x last matrix are compared with a map model. Closure means unbounded history length inside the universe.",
    TRUSTED, "DESIGN.md section 4 C03")

add("C18", "SEQ", "model_checking", "explicit-state BFS over operation sequences on the real types.Index, to closure",
    "All sequences of AddDesc (untagged, tag, referrer-subject; with and without the children option), RmDesc (digest, digest+tag, tag alone, subject alone) and AddChildren over 2 (quick) / 3 (thorough) digests, 2 tags and 2 subjects are explored breadth-first on the real type until the exact dump (entry order preserved) is closed; in every distinct state GetDesc, GetByAnnotation and Copy are checked against the invariants of the statement and a tag map model.",
    TRUSTED, "DESIGN.md section 4 C18")

add("C07", "SEQ", "model_checking", "explicit-state BFS over request histories on the implementation (bounded depth), model comparison in every state",
    "All histories up to the stated depth of artifact pushes (by digest, by tag, tag overwrite), deletes by tag and digest, subject delete / re-push, restart and a cache-warming filtered read are explored on both stores and several Referrer.Limit values; in every distinct state, for every subject and filter, the union of the Link chain (each request issued twice) is compared with the model, plus page sizes, OCI-Filters-Applied and continuation links replayed against other subjects.",
    TRUSTED, "DESIGN.md section 4 C07")

add("C01", "SEQ", "model_checking", "explicit-state BFS over upload-protocol histories on the implementation (bounded depth), model-free hash invariant in every state",
    "All histories up to the stated depth over monolithic uploads, sessions with chunked PATCH/PUT under every algorithm (incl. algorithm changes at creation and at completion), cross-repository mounts and manifest pushes by tag/digest/?digest= with right and wrong digests are explored on both stores; in every distinct state every digest of the universe is fetched (blob and manifest endpoints, both repositories, tags) and every stored blob is re-hashed against its name; each mismatching upload must be refused with a 4xx.",
    TRUSTED, "DESIGN.md section 4 C01")

add("C02", "SEQ", "model_checking", "explicit-state BFS over push/delete/restart histories on the implementation (bounded depth), model comparison in every state",
    "All histories up to the stated depth of blob and manifest pushes (four manifest media types, by tag and digest, bodies at and beyond the manifest limit with known and unknown length), re-pushes, tag moves, deletes and restart are explored on both stores; in every distinct state every acknowledged, undeleted item is read by digest and tag with GET and HEAD, under all 15 Accept subsets containing its type, and every byte range of a 4 byte blob is compared.",
    TRUSTED, "DESIGN.md section 4 C02")

add("C04", "SEQ", "model_checking", "explicit-state BFS (bounded depth) applying a push matrix in every reachable repository state, differential oracle around refusals",
    "A matrix of 24 manifest bodies x 10 reference/parameter shapes is applied in every repository state reachable within the depth bound on both stores and on the memory store over a directory; a push is acknowledged iff the model predicate (valid reference, supported type consistent with the body, parses, all references present in this repository) holds, a refusal must be a 4xx and the complete read transcript before and after it must be equal.",
    TRUSTED, "DESIGN.md section 4 C04")

add("C08", "SEQ", "model_checking", "explicit-state BFS over session histories on the implementation (bounded depth) with virtual time driving the real cache timers",
    "All histories up to the stated depth of POST / PATCH / GET / PUT / DELETE on up to three sessions with correct, stale, future, malformed and absent offsets and state tokens, session ids used through another repository, expiry (virtual clock past the grace period, real cache timer) and eviction (POST beyond RepoUploadMax in {1,2,3}, real pruneCount goroutine) are explored on both stores against a byte-exact session model; residue (temp files, partial blobs, ended ids) is checked in every state. The schedule part (expiry/eviction racing with a request) is explored by the SCHED scenarios of C12/C20.",
    TRUSTED, "DESIGN.md section 4 C08")

add("C15", "SEQ", "model_checking", "exhaustive enumeration of a request grammar from several repository states on fresh instances",
    "Every request of a finite grammar (methods x routes x repository names inside and outside the OCI grammar x references, digests, session ids, state tokens, ranges, paging and mount parameters at and beyond their bounds x bodies) is executed from each of 4-5 prepared repository states on both stores; no panic, no 5xx, OCI error documents with registered (and, where unambiguous, the named) codes, and only grammar names may reach the store or the filesystem.",
    TRUSTED + " The grammar is a finite product, not every syntactically possible request.", "DESIGN.md section 4 C15")

add("C16", "SEQ", "model_checking", "explicit-state BFS over two-repository histories on the implementation (bounded depth) with a filesystem-call log predicate",
    "For ordered pairs of repository names (nested, prefixes of each other, names equal to layout entries) all histories up to the depth bound of pushes, sessions, the session id used through the other name, mounts in both directions and paged referrers links replayed against the other name are explored; in every distinct state the read transcript of every name of the universe is compared with the model, and every filesystem call of every request must stay inside the root and inside the addressed (or mount source) repository's directory, ancestors being touched by stat/mkdir only; a sentinel tree around the root must stay unchanged.",
    TRUSTED, "DESIGN.md section 4 C16")

add("C14", "SEQ", "model_checking", "explicit-state BFS over request histories per pre-existing directory x configuration, with filesystem-call log and snapshot oracles",
    "For a family of pre-existing directory contents x store flavours x all combinations of the API switches, all histories up to the depth bound of every mutating verb, full reads, collection tick, cache expiry and close+reopen are explored; no mutating filesystem call may be issued under a read-only root, the recursive snapshot of the root equals the initial one in every state, refused requests are 4xx with an unchanged read transcript, and reads equal those of a writable store on a copy.",
    TRUSTED, "DESIGN.md section 4 C14")

add("C05", "SEQ", "model_checking", "explicit-state BFS over push/delete/time/collection histories on the implementation (bounded depth) with the real ticker goroutine driven by a virtual clock, plus stateless search over the interleavings of a collection tick with a push in flight",
    "All histories up to the depth bound of complete and step-by-step pushes over an object-graph universe (images, nested indexes, referrers of referrers, dangling and circular subjects, a digest in several roles), deletes, virtual time and collection ticks (delivered to the real gcTicker; the directory store also collects through its repository cache timer) are explored for 8 / 32 policy combinations on both stores; in every distinct state the model's must-retain set must be served. The schedule part (a pending tick racing a step-by-step push) is part of the SCHED scenarios.",
    TRUSTED, "DESIGN.md section 4 C05")

add("C06", "SEQ", "model_checking", "explicit-state BFS over push/delete/settle histories with the real ticker goroutine on a virtual clock; all visit orders of a pass via the map-iteration seam",
    "Part A: all histories up to the depth bound over an object-graph universe for the five documented policy combinations x grace/tick settings on both stores; after a regular pass (idle, and with read traffic that keeps the repository in the cache) exactly the model's retained set is served, no index entry lacks content, empty repositories are removed and a second pass changes nothing. Part B: three repositories of kinds healthy / never written / corrupt / removed from disk collected in all 6 visit orders; every healthy repository must reach the result it reaches alone.",
    TRUSTED, "DESIGN.md section 4 C06")

add("C10", "SEQ", "model_checking", "explicit-state BFS over step-by-step histories on the directory store with three differential oracles (memory store mirror, memory-over-directory, restart) and a layout validator",
    "All histories up to the depth bound of step-by-step pushes (three digest algorithms), deletes, collection ticks at any point, cache expiry and restarts over repositories r, r/n and s, with a frozen clock and with 2 s per request; every request is mirrored to a memory store. In every distinct state each repository directory is validated as an OCI layout equal to the API state, and the read transcript is compared with the memory store, with a memory store layered over the directory, and with the directory store itself after Close + reopen.",
    TRUSTED, "DESIGN.md section 4 C10")

add("C09", "CRASH", "fault_enumeration", "exhaustive crash-point and torn-write enumeration of filesystem histories through the os shim, recovery oracle after reopen (incl. a push after the recovery that must survive an ordinary restart)",
    "For every history up to length 3 / 4 over 12 single-request operations from four start states (plus longer scripts), every mutating filesystem call of the directory store is a crash point and every write is torn at three offsets; the directory left behind is reopened by a new server and must load, hold only blob files that hash to their names, resolve every tag to a complete image, and show either the state before or the state after the interrupted request on all read endpoints, with every earlier acknowledged request in effect.",
    TRUSTED + " Process-crash model (no loss of un-synced pages).", "DESIGN.md section 4 C09")

add("C17", "CRASH", "fault_enumeration", "exhaustive enumeration of a generated layout family x stores, plus every crash point of each conversion, on the implementation",
    "Every layout of a generated family of legacy (fallback tag) layouts is opened with a writable directory store and with a memory store over the directory: the converted referrers must be exactly the listed artifacts that exist and name the subject, everything else stays served, the layout is marked converted, a second round and a reopen agree, the first access terminates (dead-lock = no enabled thread under the deterministic runtime), and a crash before every mutating filesystem call of the conversion followed by a reopen gives the uninterrupted result.",
    TRUSTED, "DESIGN.md section 4 C17")

add("C20", "SEQ+SCHED", "model_checking", "explicit-state BFS over cache operation sequences with virtual time, plus preemption-bounded DFS over thread interleavings with a happens-before prefix cache, both on the real cache.Cache",
    "Sequential part: all sequences up to the depth bound of Set/Get/Delete/DeleteAll, cleanup-failure toggles and virtual time steps for Age in {0,10s} x Count in {0..3}, with the real age timer and pruneCount goroutine; every callback and the contents are checked after every step. Concurrent part: 9-12 scenarios of 1-3 threads (incl. a Get under the value's own mutex, due timers, overflow goroutines) explored over all interleavings up to preemption bound 2/3: every value that left the cache without being overwritten had a nil cleanup.",
    TRUSTED + " Scheduling points: lock, wait-group wait, channel operations, thread start/end; releases are not preemption points (sound under data-race freedom, which C13 checks).", "DESIGN.md section 4 C20")

add("C11", "SCHED", "model_checking", "stateless preemption-bounded DFS over thread interleavings of the real server with a happens-before prefix cache; linearizability oracle by brute force over sequential interleavings of the same implementation",
    "8-10 two- and three-thread scenarios per store on a pre-populated repository are explored over all interleavings up to preemption bound 2 (quick) / 3 (thorough); each explored execution's responses and complete read transcript at quiescence must equal the outcome of a sequential interleaving of the same requests (on a fresh instance) that respects the observed real-time order; additionally every acknowledged concurrent referrer must be listed.",
    TRUSTED + " Scheduling points: lock, wait-group wait, channel operations, thread start/end; bound and caps reported per scenario.", "DESIGN.md section 4 C11")
add("C12", "SCHED", "model_checking", "stateless preemption-bounded DFS over thread interleavings of the real server (request threads, gcTicker, cache timers, eviction goroutines, Close) with dead-lock and live-lock detection",
    "27-31 scenarios (uploads racing with expiry and eviction, requests racing with a pending collection tick, a cancelled context behind a collection, repository cache expiry, Close racing with requests, first access of a legacy layout) are explored over all interleavings up to preemption bound 2 / 3 on both stores: every thread must finish; 'no enabled thread while a thread is unfinished' is a dead-lock, exceeding the horizon a live-lock.",
    TRUSTED + " At most 3 request threads plus background threads; a lock cycle needing more participants is out of reach.", "DESIGN.md section 4 C12")

add("C13", "SCHED", "model_checking", "stateless preemption-bounded DFS over thread interleavings under the race detector (controlled scheduler invisible to the detector)",
    "The C11 and C12 scenario bodies without Close are explored over all interleavings up to preemption bound 1 (quick) / 2 (thorough) in a -race build whose thread hand-off (pipes, raw system calls in //go:norace code) creates no happens-before edge the detector can see: in every enumerated schedule the detector reports each conflicting access pair that olareg's own synchronisation leaves unordered. Reports are attributed to the scenario and de-duplicated by access-site pair.",
    TRUSTED + " The detector's own limits (4 shadow cells per word, bounded history, os file I/O synchronising through ioSync) apply.", "DESIGN.md section 4 C13")

add("C19", "SEQ+CONF", "model_checking", "exhaustive enumeration of the flag space through the real cobra command in-process, explicit-state BFS for the rate limit on a virtual clock, real SIGTERM after every prefix of a history",
    "Rate limit: all request/time sequences up to the depth bound for limits 1-3 and three address forms against the documented fixed window. Flag space: every true/false assignment of the 8 boolean serve flags plus each flag alone not given (quick) or every {not given,true,false} assignment (thorough, 6561) x store type, executed through the real command line in a build of cmd/olareg whose olareg.New is wrapped; configuration held by the server and a probe script compared with a table from the help texts; warnings, rate-limit, gc durations, collection disabled. Termination: real SIGTERM after every prefix of a 6-request history.",
    TRUSTED + " TLS, address binding and verbosity flags are not covered; the signal is delivered between requests.", "DESIGN.md section 4 C19")
