package checks

import (
	"encoding/json"
	"fmt"
	"net/url"
	"sort"
	"strings"
	"time"

	"github.com/olareg/olareg/config"
	"github.com/olareg/olareg/internal/verif/h"
	"github.com/olareg/olareg/types"
)

// C11 — concurrent requests on a repository never lose or tear updates (linearizability by brute force).

func c11Fix() *Fix {
	f := StdFix()
	f.Image("A0", mtImg, "e", nil, "I1", "application/x.test", map[string]string{"k": "v0"})
	f.Image("A9", mtImg, "e", nil, "I1", "application/x.test", map[string]string{"k": "v9"})
	return f
}

func c11Scenarios(tier string) []*h.Scenario { return c11ScenariosFor(tier, []string{"mem", "dir"}) }

// c11ScenariosFor: the scenarios on the given stores (C13 adds the memory store over a directory).
func c11ScenariosFor(tier string, stores []string) []*h.Scenario {
	f := c11Fix()
	const repo = "r"
	items := []string{"c", "l1", "l2", "e", "I1", "I2", "A0", "A1", "A2", "A9"}
	tags := []string{"base", "t", "t2"}
	subjects := []string{f.Items["I1"].Dig}
	putMan := func(rp, n, ref string) h.Step {
		return h.Step{Name: fmt.Sprintf("PUT %s as %s:%s", n, rp, refName(f, ref)), Do: func(w *h.World) string {
			it := f.Items[n]
			r := w.DoNoQuiesce(h.Req{Method: "PUT", Path: "/v2/" + rp + "/manifests/" + ref, Body: it.Data, Header: map[string]string{"Content-Type": it.MT}})
			return fmt.Sprintf("%d %s", r.Status, r.H.Get("Oci-Subject"))
		}}
	}
	del := func(ref string) h.Step {
		return h.Step{Name: "DELETE " + refName(f, ref), Do: func(w *h.World) string {
			r := w.DoNoQuiesce(h.Req{Method: "DELETE", Path: "/v2/" + repo + "/manifests/" + ref})
			return fmt.Sprint(r.Status)
		}}
	}
	getTags := h.Step{Name: "GET tags", Do: func(w *h.World) string {
		r := w.DoNoQuiesce(h.Req{Method: "GET", Path: "/v2/" + repo + "/tags/list"})
		var tl types.TagList
		_ = json.Unmarshal(r.Body, &tl)
		return fmt.Sprintf("%d %v", r.Status, tl.Tags)
	}}
	getTag := func(t string) h.Step {
		return h.Step{Name: "GET " + t, Do: func(w *h.World) string {
			r := w.DoNoQuiesce(h.Req{Method: "GET", Path: "/v2/" + repo + "/manifests/" + t, Header: map[string]string{"Accept": strings.Join(c02Types, ", ")}})
			n := "-"
			if it := f.ByDigest(r.H.Get("Docker-Content-Digest")); it != nil {
				n = it.Name
			}
			return fmt.Sprintf("%d %s", r.Status, n)
		}}
	}
	getRef := h.Step{Name: "GET referrers(I1)", Do: func(w *h.World) string {
		r := w.DoNoQuiesce(h.Req{Method: "GET", Path: "/v2/" + repo + "/referrers/" + f.Items["I1"].Dig})
		var idx types.Index
		_ = json.Unmarshal(r.Body, &idx)
		var names []string
		for _, d := range idx.Manifests {
			if it := f.ByDigest(d.Digest.String()); it != nil {
				names = append(names, it.Name)
			} else {
				names = append(names, short(d.Digest.String()))
			}
		}
		sort.Strings(names)
		return fmt.Sprintf("%d %v", r.Status, names)
	}}
	pushBlob := func(rp, n string) h.Step {
		return h.Step{Name: "upload " + n + " to " + rp, Do: func(w *h.World) string {
			it := f.Items[n]
			r := w.DoNoQuiesce(h.Req{Method: "POST", Path: "/v2/" + rp + "/blobs/uploads/", Query: "digest=" + url.QueryEscape(it.Dig), Body: it.Data})
			return fmt.Sprint(r.Status)
		}}
	}
	prefix := func(w *h.World) {
		for _, b := range []string{"c", "l1", "e"} {
			mustStatus(w.PushBlob(repo, f.Items[b].Data, f.Items[b].Dig), 201)
		}
		mustStatus(w.PutManifest(repo, "base", mtImg, f.Items["I1"].Data), 201)
		mustStatus(w.PutManifest(repo, f.Items["A0"].Dig, mtImg, f.Items["A0"].Data), 201)
	}
	final := func(repos ...string) func(w *h.World) string {
		return func(w *h.World) string {
			var sb strings.Builder
			for _, rp := range repos {
				sb.WriteString("== " + rp + "\n" + ReadTranscript(w, f, rp, items, tags, subjects))
			}
			return sb.String()
		}
	}
	type def struct {
		name    string
		threads [][]h.Step
		tick    bool
		nolin   bool // judged by extra alone
		nograce bool // with tick: no grace period, so that what a request stops referencing is collectable at once
		due     time.Duration
		prefix  func(w *h.World)
		repos   []string
		extra   func(w *h.World, res [][]string, final string) []h.Violation
	}
	allListed := func(names ...string) func(w *h.World, res [][]string, final string) []h.Violation {
		return func(w *h.World, res [][]string, final string) []h.Violation {
			var vs []h.Violation
			for _, line := range strings.Split(final, "\n") {
				if strings.HasPrefix(line, "referrers ") {
					for _, n := range names {
						if !strings.Contains(line, f.Items[n].Dig) {
							// only demanded if its push was acknowledged
							vs = append(vs, h.V("concurrent-referrers-all-present", "acknowledged-referrer-missing", "%s was pushed (all pushes acknowledged: %v) but the referrers list at quiescence lacks it: %s", n, res, clipS(line)))
						}
					}
				}
			}
			for _, th := range res {
				for _, r := range th {
					if !strings.HasPrefix(r, "201") && !strings.HasPrefix(r, "202") && !strings.HasPrefix(r, "200") {
						return nil // something was refused: the literal clause does not apply
					}
				}
			}
			return vs
		}
	}
	defs := []def{
		{name: "two-referrers-one-subject", threads: [][]h.Step{{putMan(repo, "A1", f.Items["A1"].Dig)}, {putMan(repo, "A2", f.Items["A2"].Dig)}}, extra: allListed("A0", "A1", "A2")},
		// the list returns to an earlier value: the response blob of [A0 A1] is still in the store (pushed, deleted again in
		// the prefix) when A1 is pushed again next to A2 - judged by the literal clause, not by the sequential runs alone
		{name: "referrer-re-push-vs-another-referrer", threads: [][]h.Step{{putMan(repo, "A1", f.Items["A1"].Dig)}, {putMan(repo, "A2", f.Items["A2"].Dig)}}, extra: allListed("A0", "A1", "A2"), prefix: func(w *h.World) {
			prefix(w)
			mustStatus(w.PutManifest(repo, f.Items["A1"].Dig, mtImg, f.Items["A1"].Data), 201)
			mustStatus(w.Delete("/v2/"+repo+"/manifests/"+f.Items["A1"].Dig), 202)
		}},
		// a referrer deleted while the same referrer is pushed again: whichever comes last, "pullable but not listed" is
		// the outcome of neither order
		// (judged by its own oracle so that the two wrong outcomes have different signatures: "listed but not served" is a
		// known finding of the unchanged tree, "served but not listed" must still be reported)
		{name: "referrer-delete-vs-re-push-of-the-same-referrer", nolin: true, threads: [][]h.Step{{del(f.Items["A0"].Dig)}, {putMan(repo, "A0", f.Items["A0"].Dig)}},
			extra: func(w *h.World, res [][]string, final string) []h.Violation {
				served, listed := false, false
				for _, line := range strings.Split(final, "\n") {
					if strings.HasPrefix(line, "GET manifest A0 -> 200") {
						served = true
					}
					if strings.HasPrefix(line, "referrers ") && strings.Contains(line, f.Items["A0"].Dig) {
						listed = true
					}
				}
				switch {
				case served && !listed:
					return []h.Violation{h.V("as-if-one-at-a-time", "served-referrer-not-listed:delete-vs-re-push", "DELETE of A0 and a re-push of A0 overlapped (answers %v): afterwards A0 is served by digest but missing from the referrers list of its subject - the outcome of neither order", res)}
				case !served && listed:
					return []h.Violation{h.V("as-if-one-at-a-time", "listed-referrer-not-served:delete-vs-re-push", "DELETE of A0 and a re-push of A0 overlapped (answers %v): afterwards A0 is listed as a referrer of its subject but not served by digest - the outcome of neither order", res)}
				}
				return nil
			}},
		{name: "two-pushes-one-tag", threads: [][]h.Step{{putMan(repo, "I1", "t")}, {putMan(repo, "I2", "t")}}, prefix: func(w *h.World) {
			prefix(w)
			mustStatus(w.PushBlob(repo, f.Items["l2"].Data, f.Items["l2"].Dig), 201)
		}},
		{name: "referrer-push-vs-referrer-delete", threads: [][]h.Step{{putMan(repo, "A1", f.Items["A1"].Dig)}, {del(f.Items["A0"].Dig)}}},
		{name: "tag-push-vs-tag-delete-vs-reader", threads: [][]h.Step{{putMan(repo, "I1", "t")}, {del("t")}, {getTags, getTag("t")}}, prefix: func(w *h.World) {
			prefix(w)
			mustStatus(w.PutManifest(repo, "t", mtImg, f.Items["I1"].Data), 201)
		}},
		// a tag that always exists and only moves: a reader may see the old or the new manifest, never none
		{name: "tag-move-vs-reader", threads: [][]h.Step{{putMan(repo, "I2", "t")}, {getTag("t"), getTags}}, prefix: func(w *h.World) {
			prefix(w)
			mustStatus(w.PushBlob(repo, f.Items["l2"].Data, f.Items["l2"].Dig), 201)
			mustStatus(w.PutManifest(repo, "t", mtImg, f.Items["I1"].Data), 201)
		}},
		{name: "digest-delete-vs-tag-push", threads: [][]h.Step{{del(f.Items["I1"].Dig)}, {putMan(repo, "I1", "t2")}}},
		{name: "referrer-push-vs-two-reads", threads: [][]h.Step{{putMan(repo, "A1", f.Items["A1"].Dig)}, {getRef, getRef}}},
		{name: "blob-upload-vs-manifest-needing-it", threads: [][]h.Step{{pushBlob(repo, "l2")}, {putMan(repo, "I2", "t2")}}},
		// the repository is on disk but not yet known to the (restarted) server: both requests are first accesses
		{name: "two-tag-pushes-as-first-accesses-after-restart", threads: [][]h.Step{{putMan(repo, "I1", "t")}, {putMan(repo, "I1", "t2")}}, prefix: func(w *h.World) {
			prefix(w)
			_ = w.Reopen()
		}},
		// the repository was idle for longer than the age of its cache entry: the eviction (which collects the repository
		// and then drops the entry) runs while the two requests arrive
		{name: "two-tag-pushes-vs-eviction-of-the-idle-repository", due: 72 * time.Minute, threads: [][]h.Step{{putMan(repo, "I1", "t")}, {putMan(repo, "I1", "t2")}}},
		// a listing that has taken the index but not yet the response blob, a push that replaces the response, and a
		// collection that may take the replaced blob: the listing shows the old or the new list, never none
		{name: "referrers-read-vs-referrer-push-vs-tick-without-grace", tick: true, nograce: true, threads: [][]h.Step{{getRef}, {putMan(repo, "A1", f.Items["A1"].Dig)}}},
		{name: "two-repositories-vs-tick", tick: true, repos: []string{repo, "q"}, threads: [][]h.Step{{putMan(repo, "I1", "t")}, {pushBlob("q", "c")}}},
	}
	if tier == "thorough" {
		defs = append(defs,
			def{name: "three-referrers-one-subject", threads: [][]h.Step{{putMan(repo, "A1", f.Items["A1"].Dig)}, {putMan(repo, "A2", f.Items["A2"].Dig)}, {putMan(repo, "A9", f.Items["A9"].Dig)}}, extra: allListed("A0", "A1", "A2", "A9")},
			def{name: "tag-move-vs-tick", tick: true, threads: [][]h.Step{{putMan(repo, "I1", "t")}, {del("base")}}},
		)
	}
	var out []*h.Scenario
	bound := 2
	if tier == "thorough" {
		bound = 3
	}
	if tier == "thorough" {
		// generated: every unordered pair (a request with itself included) of twelve kinds of single requests on the
		// pre-populated repository, both stores, up to two preemptions
		prefix2 := func(w *h.World) {
			prefix(w)
			mustStatus(w.PushBlob(repo, f.Items["l2"].Data, f.Items["l2"].Dig), 201)
		}
		alpha := []h.Step{putMan(repo, "I1", "t"), putMan(repo, "I2", "t"), putMan(repo, "I1", "t2"), putMan(repo, "A1", f.Items["A1"].Dig), putMan(repo, "A2", f.Items["A2"].Dig),
			del("base"), del(f.Items["I1"].Dig), del(f.Items["A0"].Dig), pushBlob(repo, "l2"), getTags, getTag("base"), getRef}
		for _, store := range stores {
			for i := range alpha {
				for j := i; j < len(alpha); j++ {
					a, b := alpha[i], alpha[j]
					if strings.HasPrefix(a.Name, "GET") && strings.HasPrefix(b.Name, "GET") {
						continue // two reads do not conflict
					}
					nm := strings.NewReplacer(" ", "-", ":", "-", "@", "", "(", "", ")", "").Replace(a.Name + "-vs-" + b.Name)
					out = append(out, &h.Scenario{
						Name:         "c11-" + store + "-pair-" + nm,
						Conf:         &h.Conf{Name: store, Store: store},
						Prefix:       prefix2,
						Threads:      [][]h.Step{{a}, {b}},
						Final:        final(repo),
						Linearizable: true,
						Bound:        2,
						MaxSeconds:   150,
					})
				}
			}
		}
	}
	for _, store := range stores {
		for _, d := range defs {
			store, d := store, d
			repos := d.repos
			if repos == nil {
				repos = []string{repo}
			}
			pf := d.prefix
			if pf == nil {
				pf = prefix
			}
			conf := &h.Conf{Name: store, Store: store}
			if d.tick || d.due > 0 {
				conf.Mod = func(c *config.Config) {
					c.Storage.GC.Frequency = 15 * time.Minute
					c.Storage.GC.GracePeriod = time.Hour
					if d.nograce {
						c.Storage.GC.GracePeriod = -1
					}
				}
			}
			out = append(out, &h.Scenario{
				Name:         "c11-" + store + "-" + d.name,
				Conf:         conf,
				Prefix:       pf,
				Threads:      d.threads,
				PendingTick:  d.tick,
				Due:          d.due,
				Final:        final(repos...),
				Linearizable: !d.nolin,
				Extra:        d.extra,
				Bound:        bound,
			})
		}
	}
	return out
}

func refName(f *Fix, ref string) string {
	if it := f.ByDigest(ref); it != nil {
		return "@" + it.Name
	}
	return ref
}

func init() {
	h.RegisterSched(&h.SchedCheck{
		ID:    "C11",
		Level: "model_checking",
		Rule: "stateless depth-first search over all interleavings, up to the preemption bound, of 16 (quick) / 18 (thorough) scenarios per store on a pre-populated repository (two referrers to one subject, a referrer pushed again after its deletion next to another referrer, a referrer delete racing with a re-push of the same referrer, two pushes of one tag, referrer push vs referrer delete, tag push vs tag delete vs a reader, digest delete vs tag push, referrer push vs two reads, blob upload vs the manifest needing it, pushes to two repositories with a pending collection tick, two first accesses after a restart, two pushes racing with the eviction of the idle repository, three referrers, tag move vs tick) and, in the thorough tier, of every unordered pair of twelve kinds of single requests (three tag pushes, two referrer pushes, tag / digest / referrer delete, blob upload, three reads; 72 pairs per store, two preemptions, 150 s each); " +
			"oracle: linearizability by brute force - every interleaving of the scenario's requests is executed sequentially on a fresh instance of the same implementation, and the explored execution's (responses, complete read transcript at quiescence) must equal the outcome of one of them that respects the observed real-time order; plus the literal clause that all acknowledged concurrent referrers are listed; non-trivial = distinct outcomes",
		Assume:    []string{"scheduling points as in C12; the clock advances by one nanosecond per reading in the concurrent phase", "a collection tick is one operation of the scenario"},
		Scenarios: c11Scenarios,
		Budget: func(tier string) time.Duration {
			if tier == "thorough" {
				return 12 * time.Minute
			}
			return 100 * time.Second
		},
	})
}
