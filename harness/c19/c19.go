// Package c19 runs inside a build of cmd/olareg (injected by the overlay, see inject/): the real cobra command
// is executed in-process for every point of the flag space, the server it builds is captured, probed through
// ServeHTTP and terminated with a real SIGTERM. The runtime stays in Off mode (all shims pass through).
package c19

import (
	"bytes"
	"context"
	"encoding/json"
	"fmt"
	"net"
	"net/http"
	"net/http/httptest"
	"os"
	"os/signal"
	"path/filepath"
	"reflect"
	"sort"
	"strings"
	"sync"
	"syscall"
	"time"

	"github.com/opencontainers/go-digest"
	"github.com/spf13/cobra"

	"github.com/olareg/olareg"
	"github.com/olareg/olareg/config"
	"github.com/olareg/olareg/types"
)

type Violation struct {
	Rule   string   `json:"rule"`
	Sig    string   `json:"sig"`
	Detail string   `json:"detail"`
	Conf   string   `json:"conf"`
	Args   []string `json:"args"`
}

type Result struct {
	Points  int            `json:"points"`
	Probes  int            `json:"probes"`
	Kinds   int            `json:"kinds"`
	Viol    []Violation    `json:"viol"`
	Samples []string       `json:"samples"`
	Parts   map[string]int `json:"parts"`
}

var (
	capMu   sync.Mutex
	capSrv  *olareg.Server
	capConf config.Config
	capCh   = make(chan struct{}, 16)
)

// Capture is called by the wrapped olareg.New in cmd/olareg.
func Capture(s *olareg.Server, c config.Config) {
	capMu.Lock()
	capSrv, capConf = s, c
	capMu.Unlock()
	select {
	case capCh <- struct{}{}:
	default:
	}
}

// earlySignal: deliver SIGTERM after the signal handler goroutine exists but before Server.Run registers the listener
var earlySignal bool

// BeforeRun is called by the wrapped s.Run in cmd/olareg.
func BeforeRun() {
	if earlySignal {
		time.Sleep(20 * time.Millisecond) // let the goroutine that calls signal.Notify start
		_ = syscall.Kill(os.Getpid(), syscall.SIGTERM)
		time.Sleep(150 * time.Millisecond) // let it run Shutdown, which finds no server yet
	}
}

var flagNames = []string{"store-ro", "api-push", "api-delete", "api-blob-delete", "api-referrer", "gc-untagged", "gc-referrer-dangling", "gc-referrer-subject"}
var flagDefaults = []bool{false, true, false, false, true, false, false, true}

// fixture content
var (
	blobC  = []byte("{}")
	blobL1 = []byte("layer-1")
	blobL2 = []byte("layer-2")
	blobB4 = []byte("abcd")
	blobE  = []byte("{ }")
)

func dg(b []byte) string { return digest.Canonical.FromBytes(b).String() }

func image(conf, layer []byte, subject *types.Descriptor) []byte {
	m := types.Manifest{SchemaVersion: 2, MediaType: types.MediaTypeOCI1Manifest,
		Config:  types.Descriptor{MediaType: types.MediaTypeOCI1ImageConfig, Digest: digest.Canonical.FromBytes(conf), Size: int64(len(conf))},
		Layers:  []types.Descriptor{{MediaType: types.MediaTypeOCI1Layer, Digest: digest.Canonical.FromBytes(layer), Size: int64(len(layer))}},
		Subject: subject}
	b, _ := json.Marshal(m)
	return b
}

var manI1 = image(blobC, blobL1, nil)
var manI2 = image(blobC, blobL2, nil)

// manXA: an index (no children) whose subject is I1
var manXA = func() []byte {
	b, _ := json.Marshal(types.Index{SchemaVersion: 2, MediaType: types.MediaTypeOCI1ManifestList, ArtifactType: "application/x.test", Manifests: []types.Descriptor{},
		Subject: &types.Descriptor{MediaType: types.MediaTypeOCI1Manifest, Digest: digest.Canonical.FromBytes(manI1), Size: int64(len(manI1))}})
	return b
}()

var manA1 = image(blobE, blobL1, &types.Descriptor{MediaType: types.MediaTypeOCI1Manifest, Digest: digest.Canonical.FromBytes(manI1), Size: int64(len(manI1))})

// writeTemplate writes a valid layout: repository r with I1 tagged t and a few blobs.
func writeTemplate(root string) { writeTemplateConv(root, true) }

// converted: whether index.json carries the "referrers converted" marker (a converted layout cannot be served
// with the referrers API disabled, by design)
func writeTemplateConv(root string, converted bool) {
	dir := filepath.Join(root, "r")
	_ = os.MkdirAll(filepath.Join(dir, "blobs", "sha256"), 0o755)
	put := func(b []byte) {
		_ = os.WriteFile(filepath.Join(dir, "blobs", "sha256", strings.TrimPrefix(dg(b), "sha256:")), b, 0o644)
	}
	for _, b := range [][]byte{blobC, blobL1, blobL2, blobE, manI1} {
		put(b)
	}
	ann := map[string]string{}
	if converted {
		ann[types.AnnotReferrerConvert] = "true"
	}
	idx := types.Index{SchemaVersion: 2, MediaType: types.MediaTypeOCI1ManifestList, Annotations: ann,
		Manifests: []types.Descriptor{{MediaType: types.MediaTypeOCI1Manifest, Digest: digest.Canonical.FromBytes(manI1), Size: int64(len(manI1)), Annotations: map[string]string{types.AnnotRefName: "t"}}}}
	b, _ := json.Marshal(idx)
	_ = os.WriteFile(filepath.Join(dir, "index.json"), b, 0o644)
	_ = os.WriteFile(filepath.Join(dir, "oci-layout"), []byte(`{"imageLayoutVersion":"1.0.0"}`), 0o644)
}

func snapshot(root string) string {
	var lines []string
	_ = filepath.Walk(root, func(p string, fi os.FileInfo, err error) error {
		if err != nil {
			return nil
		}
		rel, _ := filepath.Rel(root, p)
		if fi.IsDir() {
			lines = append(lines, rel+"/")
		} else {
			b, _ := os.ReadFile(p)
			lines = append(lines, fmt.Sprintf("%s %d %s %d", rel, fi.Size(), dg(b)[7:19], fi.ModTime().UnixNano()))
		}
		return nil
	})
	sort.Strings(lines)
	return strings.Join(lines, "\n")
}

type run struct {
	errCh chan error
	srv   *olareg.Server
	conf  config.Config
}

func freePort() int {
	l, err := net.Listen("tcp", "127.0.0.1:0")
	if err != nil {
		return 0
	}
	p := l.Addr().(*net.TCPAddr).Port
	_ = l.Close()
	return p
}

// start runs `serve` with the given arguments in-process and waits until it listens.
func start(newCmd func() *cobra.Command, args []string) (*run, error) {
	for len(capCh) > 0 {
		<-capCh
	}
	port := freePort()
	cmd := newCmd()
	var errBuf bytes.Buffer
	cmd.SetErr(&errBuf)
	cmd.SetOut(&errBuf)
	cmd.SetArgs(append([]string{"serve", "--addr", "127.0.0.1", "--port", fmt.Sprint(port), "-v", "error"}, args...))
	r := &run{errCh: make(chan error, 1)}
	go func() { r.errCh <- cmd.Execute() }()
	select {
	case <-capCh:
	case err := <-r.errCh:
		return nil, fmt.Errorf("serve returned before building a server: %v", err)
	case <-time.After(60 * time.Second):
		return nil, fmt.Errorf("serve did not build a server within 60 s")
	}
	capMu.Lock()
	r.srv, r.conf = capSrv, capConf
	capMu.Unlock()
	deadline := time.Now().Add(60 * time.Second)
	for {
		c, err := net.DialTimeout("tcp", fmt.Sprintf("127.0.0.1:%d", port), 200*time.Millisecond)
		if err == nil {
			_ = c.Close()
			break
		}
		select {
		case e := <-r.errCh:
			return nil, fmt.Errorf("serve returned while starting: %v", e)
		default:
		}
		if time.Now().After(deadline) {
			return nil, fmt.Errorf("the listener did not come up within 60 s")
		}
		time.Sleep(2 * time.Millisecond)
	}
	return r, nil
}

// stop delivers a real SIGTERM and waits for run to return.
func (r *run) stop() (err error, hung bool) { return r.stopWithin(stopLimit) }

// stopLimit: how long serve may take to return after SIGTERM before it counts as hanging. It is real time on a machine
// that may be heavily loaded (a thorough run next to other jobs once took more than 8 s for a healthy shutdown: false
// alarm 29), so the limit is generous; a healthy shutdown returns at once and only a genuine hang pays it.
const stopLimit = 120 * time.Second

func (r *run) stopWithin(d time.Duration) (err error, hung bool) {
	_ = syscall.Kill(os.Getpid(), syscall.SIGTERM)
	select {
	case err = <-r.errCh:
		return err, false
	case <-time.After(d):
		return nil, true
	}
}

type resp struct {
	status int
	h      http.Header
	body   []byte
}

func do(s *olareg.Server, method, target string, body []byte, hdr ...string) resp {
	req := httptest.NewRequest(method, target, bytes.NewReader(body))
	for i := 0; i+1 < len(hdr); i += 2 {
		req.Header.Set(hdr[i], hdr[i+1])
	}
	rec := httptest.NewRecorder()
	s.ServeHTTP(rec, req)
	res := rec.Result()
	return resp{res.StatusCode, res.Header, rec.Body.Bytes()}
}

func serverConf(s *olareg.Server) config.Config {
	v := reflect.ValueOf(s).Elem().FieldByName("conf")
	return *(*config.Config)(v.Addr().UnsafePointer())
}

// Main is the entry point inside the cmd/olareg build.
func Main(newCmd func() *cobra.Command) int {
	// never let the default action of SIGTERM apply to this process
	keep := make(chan os.Signal, 64)
	signal.Notify(keep, syscall.SIGTERM)
	tier := os.Getenv("VERIF_C19")
	res := &Result{Parts: map[string]int{}}
	base, _ := os.MkdirTemp("/dev/shm", "verif-c19-")
	defer os.RemoveAll(base)
	add := func(conf string, args []string, rule, sig, format string, a ...any) {
		res.Viol = append(res.Viol, Violation{Rule: rule, Sig: sig, Detail: fmt.Sprintf(format, a...), Conf: conf, Args: args})
	}
	flagSpace(newCmd, tier, base, res, add)
	otherFlags(newCmd, base, res, add)
	termination(newCmd, base, res, add)
	earlyTermination(newCmd, base, res, add)
	b, _ := json.Marshal(res)
	fmt.Println("C19RESULT " + string(b))
	return 0
}

type adder func(conf string, args []string, rule, sig, format string, a ...any)

func tri(v int, def bool) bool {
	switch v {
	case 1:
		return true
	case 2:
		return false
	}
	return def
}

// flagSpace: every assignment of the 8 boolean flags to {not given, true, false} (thorough) or {true,false} plus
// each flag alone not given (quick), for both store types.
// flagSpaceWarning is given with every flag assignment: "warning headers to include with all responses" - served,
// refused (read-only, push / delete disabled) and not found alike.
const flagSpaceWarning = "flag space warning"

func flagSpace(newCmd func() *cobra.Command, tier, base string, res *Result, add adder) {
	var assigns [][]int
	if tier == "thorough" {
		n := 1
		for range flagNames {
			n *= 3
		}
		for k := 0; k < n; k++ {
			a := make([]int, len(flagNames))
			x := k
			for i := range a {
				a[i] = x % 3
				x /= 3
			}
			assigns = append(assigns, a)
		}
	} else {
		for k := 0; k < 1<<len(flagNames); k++ {
			a := make([]int, len(flagNames))
			for i := range a {
				a[i] = 2 - (k>>i)&1
			}
			assigns = append(assigns, a)
		}
		for i := range flagNames {
			a := make([]int, len(flagNames))
			for j := range a {
				a[j] = 1
			}
			a[i] = 0
			b := make([]int, len(flagNames))
			for j := range b {
				b[j] = 2
			}
			b[i] = 0
			assigns = append(assigns, a, b)
		}
		assigns = append(assigns, make([]int, len(flagNames)))
	}
	tmpl := filepath.Join(base, "template")
	writeTemplate(tmpl)
	tmplPlain := filepath.Join(base, "template-plain")
	writeTemplateConv(tmplPlain, false)
	n := 0
	for _, store := range []string{"dir", "mem"} {
		for _, a := range assigns {
			n++
			dir := filepath.Join(base, fmt.Sprintf("w%d", n))
			if tri(a[4], flagDefaults[4]) {
				copyTree(tmpl, dir)
			} else {
				copyTree(tmplPlain, dir)
			}
			args := []string{"--store-type", store, "--dir", dir, "--gc-frequency", "-1s", "--warning", flagSpaceWarning}
			var label []string
			for i, v := range a {
				switch v {
				case 1:
					args = append(args, "--"+flagNames[i]+"=true")
					label = append(label, flagNames[i]+"=T")
				case 2:
					args = append(args, "--"+flagNames[i]+"=false")
					label = append(label, flagNames[i]+"=F")
				}
			}
			conf := store + " " + strings.Join(label, " ")
			r, err := start(newCmd, args)
			if err != nil {
				add(conf, args, "serve-starts", "serve-did-not-start", "%v", err)
				_ = os.RemoveAll(dir)
				continue
			}
			res.Points++
			probeFlags(r, store, dir, a, conf, args, res, add)
			if err, hung := r.stop(); hung {
				add(conf, args, "terminates", "termination-hangs", "serve did not return within 120 s after SIGTERM")
				return
			} else if err != nil {
				add(conf, args, "terminates", "termination-error", "serve returned %v after SIGTERM", err)
			}
			if len(res.Samples) < 4 {
				res.Samples = append(res.Samples, "serve "+strings.Join(args[4:], " "))
			}
			_ = os.RemoveAll(dir)
		}
	}
	res.Parts["flag_assignments"] = len(assigns) * 2
}

func probeFlags(r *run, store, dir string, a []int, conf string, args []string, res *Result, add adder) {
	ro, push, del, bdel, ref := tri(a[0], flagDefaults[0]), tri(a[1], flagDefaults[1]), tri(a[2], flagDefaults[2]), tri(a[3], flagDefaults[3]), tri(a[4], flagDefaults[4])
	s := r.srv
	// 1. the configuration the server holds
	c := serverConf(s)
	chk := func(name string, got *bool, want bool) {
		res.Probes++
		if got == nil || *got != want {
			add(conf, args, "setting-has-documented-value", "config-field-wrong:"+name, "%s: the server holds %v, expected %v (flag given or documented default)", name, ptrS(got), want)
		}
	}
	chk("store-ro", c.Storage.ReadOnly, ro)
	chk("api-push", c.API.PushEnabled, push)
	chk("api-delete", c.API.DeleteEnabled, del)
	chk("api-blob-delete", c.API.Blob.DeleteEnabled, bdel)
	chk("api-referrer", c.API.Referrer.Enabled, ref)
	chk("gc-untagged", c.Storage.GC.Untagged, tri(a[5], flagDefaults[5]))
	chk("gc-referrer-dangling", c.Storage.GC.ReferrersDangling, tri(a[6], flagDefaults[6]))
	chk("gc-referrer-subject", c.Storage.GC.ReferrersWithSubj, tri(a[7], flagDefaults[7]))
	wantStore := config.StoreDir
	if store == "mem" {
		wantStore = config.StoreMem
	}
	if c.Storage.StoreType != wantStore || c.Storage.RootDir != dir {
		add(conf, args, "setting-has-documented-value", "config-field-wrong:store", "store type %v dir %q", c.Storage.StoreType, c.Storage.RootDir)
	}
	// 2. behaviour
	do := func(s *olareg.Server, method, target string, body []byte, hdr ...string) resp {
		got := do(s, method, target, body, hdr...)
		res.Probes++
		if ws := got.h.Values("Warning"); len(ws) != 1 || ws[0] != `299 - "`+flagSpaceWarning+`"` {
			add(conf, args, "warnings-on-all-responses", fmt.Sprintf("warning-header-missing:status-%d", got.status), "%s %s answered %d without the configured warning (Warning headers %v)", method, target, got.status, ws)
		}
		return got
	}
	before := snapshot(dir)
	expect := func(what string, got resp, ok bool, okStatus int) {
		res.Probes++
		if ok && got.status != okStatus {
			add(conf, args, "enabled-request-served", "enabled-request-refused:"+what, "%s should be served (%d), answered %d %s", what, okStatus, got.status, got.body)
		}
		if !ok && (got.status < 400 || got.status >= 500) {
			add(conf, args, "disabled-request-refused", "disabled-request-served:"+what, "%s should be refused with a 4xx, answered %d", what, got.status)
		}
	}
	// reads are always served
	expect("GET manifest", do(s, "GET", "/v2/r/manifests/t", nil, "Accept", types.MediaTypeOCI1Manifest), true, 200)
	expect("GET blob", do(s, "GET", "/v2/r/blobs/"+dg(blobL1), nil), true, 200)
	// referrers API
	rr := do(s, "GET", "/v2/r/referrers/"+dg(manI1), nil)
	res.Probes++
	if ref && rr.status != 200 {
		add(conf, args, "referrers-flag", "referrers-enabled-but-not-served", "referrers API enabled, answered %d", rr.status)
	}
	if !ref && rr.status == 200 {
		add(conf, args, "referrers-flag", "referrers-disabled-but-served", "referrers API disabled, answered 200")
	}
	canPush := push && !ro
	expect("blob upload", do(s, "POST", "/v2/r/blobs/uploads/?digest="+dg(blobB4), blobB4), canPush, 201)
	expect("open session", do(s, "POST", "/v2/r/blobs/uploads/", nil), canPush, 202)
	expect("manifest push", do(s, "PUT", "/v2/r/manifests/u", manI2, "Content-Type", types.MediaTypeOCI1Manifest), canPush, 201)
	ap := do(s, "PUT", "/v2/r/manifests/"+dg(manA1), manA1, "Content-Type", types.MediaTypeOCI1Manifest)
	expect("artifact push", ap, canPush, 201)
	if canPush && ap.status == 201 {
		res.Probes++
		if (ap.h.Get("Oci-Subject") != "") != ref {
			add(conf, args, "referrers-flag", "oci-subject-header-vs-flag", "referrers enabled=%v but OCI-Subject=%q on an artifact push", ref, ap.h.Get("Oci-Subject"))
		}
	}
	// the same for an artifact that is an index (a second code path in the manifest push)
	xp := do(s, "PUT", "/v2/r/manifests/"+dg(manXA), manXA, "Content-Type", types.MediaTypeOCI1ManifestList)
	expect("index artifact push", xp, canPush, 201)
	if canPush && xp.status == 201 {
		res.Probes++
		if (xp.h.Get("Oci-Subject") != "") != ref {
			add(conf, args, "referrers-flag", "oci-subject-header-vs-flag:index-artifact", "referrers enabled=%v but OCI-Subject=%q on the push of an index with a subject", ref, xp.h.Get("Oci-Subject"))
		}
	}
	expect("blob delete", do(s, "DELETE", "/v2/r/blobs/"+dg(blobL2)+"x", nil), false, 0) // malformed digest is refused whatever the flags
	canDel := del && !ro
	expect("manifest delete", do(s, "DELETE", "/v2/r/manifests/t", nil), canDel, 202)
	expect("blob delete", do(s, "DELETE", "/v2/r/blobs/"+dg(blobE), nil), canDel && bdel, 202)
	// 3. store type / read-only: what reaches the directory
	after := snapshot(dir)
	res.Probes++
	if (ro || store == "mem") && after != before {
		add(conf, args, "directory-untouched", "directory-changed-under-"+map[bool]string{true: "read-only", false: "memory-store"}[ro], "the directory changed although the store is read-only or in memory")
	}
	if !ro && store == "dir" && canPush {
		if _, err := os.Stat(filepath.Join(dir, "r", "blobs", "sha256", strings.TrimPrefix(dg(blobB4), "sha256:"))); err != nil {
			add(conf, args, "store-dir-writes-directory", "pushed-blob-not-in-directory", "a pushed blob is not under --dir with the directory store: %v", err)
		}
	}
}

func ptrS(b *bool) string {
	if b == nil {
		return "nil"
	}
	return fmt.Sprint(*b)
}

// otherFlags: warnings, rate limit, gc durations and "collection disabled".
func otherFlags(newCmd func() *cobra.Command, base string, res *Result, add adder) {
	n := 0
	runWith := func(label string, args []string, f func(r *run, dir string)) {
		n++
		dir := filepath.Join(base, fmt.Sprintf("o%d", n))
		writeTemplate(dir)
		full := append([]string{"--dir", dir}, args...)
		r, err := start(newCmd, full)
		if err != nil {
			add(label, full, "serve-starts", "serve-did-not-start", "%v", err)
			return
		}
		res.Points++
		f(r, dir)
		if err, hung := r.stop(); hung || err != nil {
			add(label, full, "terminates", "termination-failed", "after SIGTERM: err=%v hung=%v", err, hung)
		}
		_ = os.RemoveAll(dir)
	}
	for _, ws := range [][]string{nil, {"first warning"}, {"first warning", "second"}} {
		ws := ws
		var args []string
		for _, w := range ws {
			args = append(args, "--warning", w)
		}
		runWith(fmt.Sprintf("%d warnings", len(ws)), args, func(r *run, dir string) {
			got := do(r.srv, "GET", "/v2/", nil).h.Values("Warning")
			var want []string
			for _, w := range ws {
				want = append(want, `299 - "`+w+`"`)
			}
			res.Probes++
			if fmt.Sprint(got) != fmt.Sprint(want) {
				add(fmt.Sprintf("%d warnings", len(ws)), args, "warnings", "warning-headers-wrong", "Warning headers %v, want %v", got, want)
			}
		})
	}
	for _, rl := range []int{0, 1, 3} {
		rl := rl
		args := []string{}
		if rl > 0 {
			args = []string{"--rate-limit", fmt.Sprint(rl)}
		}
		runWith(fmt.Sprintf("rate-limit %d", rl), args, func(r *run, dir string) {
			served := 0
			for i := 0; i < 6; i++ {
				if do(r.srv, "GET", "/v2/", nil).status == 200 {
					served++
				}
			}
			res.Probes++
			want := 6
			if rl > 0 {
				want = rl
			}
			if served != want {
				add(fmt.Sprintf("rate-limit %d", rl), args, "rate-limit", "rate-limit-flag-wrong", "6 immediate requests from one address: %d served, expected %d", served, want)
			}
			c := serverConf(r.srv)
			if c.API.RateLimit != rl {
				add(fmt.Sprintf("rate-limit %d", rl), args, "setting-has-documented-value", "config-field-wrong:rate-limit", "RateLimit=%d", c.API.RateLimit)
			}
		})
	}
	type dur struct {
		arg  string
		want time.Duration
	}
	for _, f := range []dur{{"", 15 * time.Minute}, {"-1s", -time.Second}, {"7m", 7 * time.Minute}} {
		for _, g := range []dur{{"", time.Hour}, {"-1s", -time.Second}, {"90m", 90 * time.Minute}} {
			f, g := f, g
			var args []string
			if f.arg != "" {
				args = append(args, "--gc-frequency", f.arg)
			}
			if g.arg != "" {
				args = append(args, "--gc-grace-period", g.arg)
			}
			label := fmt.Sprintf("gc-frequency %q gc-grace-period %q", f.arg, g.arg)
			runWith(label, args, func(r *run, dir string) {
				c := serverConf(r.srv)
				res.Probes++
				if c.Storage.GC.Frequency != f.want || c.Storage.GC.GracePeriod != g.want {
					add(label, args, "setting-has-documented-value", "config-field-wrong:gc-durations", "Frequency=%v GracePeriod=%v, expected %v / %v", c.Storage.GC.Frequency, c.Storage.GC.GracePeriod, f.want, g.want)
				}
			})
		}
	}
	// collection disabled (the documented --gc-frequency -1): an unreferenced blob survives shutdown and restart, whatever the grace setting
	for _, g := range []string{"", "-1s", "1h"} {
		g := g
		n++
		dir := filepath.Join(base, fmt.Sprintf("o%d", n))
		writeTemplate(dir)
		// old, unreferenced blob
		old := time.Now().Add(-48 * time.Hour)
		p := filepath.Join(dir, "r", "blobs", "sha256", strings.TrimPrefix(dg(blobB4), "sha256:"))
		_ = os.WriteFile(p, blobB4, 0o644)
		_ = os.Chtimes(p, old, old)
		args := []string{"--dir", dir, "--gc-frequency", "-1s"}
		if g != "" {
			args = append(args, "--gc-grace-period", g)
		}
		label := "collection disabled, grace " + g
		r, err := start(newCmd, args)
		if err != nil {
			add(label, args, "serve-starts", "serve-did-not-start", "%v", err)
			continue
		}
		res.Points++
		do(r.srv, "GET", "/v2/r/tags/list", nil)
		if err, hung := r.stop(); hung || err != nil {
			add(label, args, "terminates", "termination-failed", "after SIGTERM: err=%v hung=%v", err, hung)
		}
		res.Probes++
		if _, err := os.Stat(p); err != nil {
			add(label, args, "collection-disabled-means-disabled", "blob-collected-at-shutdown-with-collection-disabled", "an unreferenced blob was removed at shutdown although --gc-frequency -1s disables collection: %v", err)
		}
		_ = os.RemoveAll(dir)
	}
}

// termination: a real SIGTERM after every prefix of a push history; run returns nil, the store is closed, and a
// second run on the same directory serves what was acknowledged from a valid layout.
func termination(newCmd func() *cobra.Command, base string, res *Result, add adder) {
	type step struct {
		name string
		do   func(s *olareg.Server, st map[string]string) bool
	}
	steps := []step{
		{"upload c", func(s *olareg.Server, st map[string]string) bool {
			return do(s, "POST", "/v2/p/blobs/uploads/?digest="+dg(blobC), blobC).status == 201
		}},
		{"upload l1", func(s *olareg.Server, st map[string]string) bool {
			return do(s, "POST", "/v2/p/blobs/uploads/?digest="+dg(blobL1), blobL1).status == 201
		}},
		{"push I1 as t", func(s *olareg.Server, st map[string]string) bool {
			ok := do(s, "PUT", "/v2/p/manifests/t", manI1, "Content-Type", types.MediaTypeOCI1Manifest).status == 201
			if ok {
				st["t"] = dg(manI1)
			}
			return ok
		}},
		{"open session", func(s *olareg.Server, st map[string]string) bool {
			r := do(s, "POST", "/v2/p/blobs/uploads/", nil)
			st["loc"] = r.h.Get("Location")
			return r.status == 202
		}},
		{"patch session", func(s *olareg.Server, st map[string]string) bool {
			return do(s, "PATCH", st["loc"], []byte("partial")).status == 202
		}},
		{"push I1 as u", func(s *olareg.Server, st map[string]string) bool {
			ok := do(s, "PUT", "/v2/p/manifests/u", manI1, "Content-Type", types.MediaTypeOCI1Manifest).status == 201
			if ok {
				st["u"] = dg(manI1)
			}
			return ok
		}},
	}
	for k := 0; k <= len(steps); k++ {
		dir := filepath.Join(base, fmt.Sprintf("t%d", k))
		_ = os.MkdirAll(dir, 0o755)
		args := []string{"--dir", dir, "--api-delete=true"}
		label := fmt.Sprintf("SIGTERM after %d requests", k)
		r, err := start(newCmd, args)
		if err != nil {
			add(label, args, "serve-starts", "serve-did-not-start", "%v", err)
			continue
		}
		res.Points++
		st := map[string]string{}
		for i := 0; i < k; i++ {
			if !steps[i].do(r.srv, st) {
				add(label, args, "history", "history-step-failed", "step %q was not acknowledged", steps[i].name)
			}
		}
		err, hung := r.stop()
		res.Probes++
		if hung {
			add(label, args, "termination-clean", "termination-hangs", "serve did not return within 120 s after SIGTERM")
			return
		}
		if err != nil {
			add(label, args, "termination-clean", "termination-error", "serve returned %v", err)
		}
		if g := do(r.srv, "GET", "/v2/", nil); g.status != 500 {
			add(label, args, "store-closed", "store-not-closed-after-termination", "the server still answers %d after serve returned: its store was not closed", g.status)
		}
		// second run on the same directory
		r2, err := start(newCmd, args)
		if err != nil {
			add(label, args, "serve-starts", "restart-failed", "%v", err)
			continue
		}
		for _, tag := range []string{"t", "u"} {
			g := do(r2.srv, "GET", "/v2/p/manifests/"+tag, nil, "Accept", types.MediaTypeOCI1Manifest)
			res.Probes++
			if want, ok := st[tag]; ok && (g.status != 200 || g.h.Get("Docker-Content-Digest") != want) {
				add(label, args, "storage-intact", "acknowledged-push-lost-by-termination", "tag %s was acknowledged before SIGTERM, after the restart GET answers %d", tag, g.status)
			}
		}
		if _, ok := st["t"]; ok {
			lb, err := os.ReadFile(filepath.Join(dir, "p", "oci-layout"))
			var idx types.Index
			ib, err2 := os.ReadFile(filepath.Join(dir, "p", "index.json"))
			if err != nil || err2 != nil || !strings.Contains(string(lb), "1.0.0") || json.Unmarshal(ib, &idx) != nil {
				add(label, args, "storage-intact", "layout-invalid-after-termination", "oci-layout / index.json after termination: %v %v", err, err2)
			}
		}
		if ups, _ := os.ReadDir(filepath.Join(dir, "p", "_uploads")); len(ups) > 0 {
			add(label, args, "storage-intact", "upload-residue-after-termination", "%d temporary upload files remain after a clean termination", len(ups))
		}
		if err, hung := r2.stop(); hung || err != nil {
			add(label, args, "termination-clean", "termination-failed", "second run after SIGTERM: err=%v hung=%v", err, hung)
		}
		_ = os.RemoveAll(dir)
	}
	res.Parts["termination_prefixes"] = len(steps) + 1
	// read-only store, collection at its default schedule: termination (which lets every repository leave the cache)
	// leaves the directory exactly as it was - also a repository without manifests and a left-over empty _uploads
	for k := 0; k <= 3; k++ {
		dir := filepath.Join(base, fmt.Sprintf("ro%d", k))
		writeTemplate(dir)
		_ = os.MkdirAll(filepath.Join(dir, "r", "_uploads"), 0o755)
		_ = os.MkdirAll(filepath.Join(dir, "emptyrepo", "blobs", "sha256"), 0o755)
		_ = os.WriteFile(filepath.Join(dir, "emptyrepo", "oci-layout"), []byte(`{"imageLayoutVersion":"1.0.0"}`), 0o644)
		_ = os.WriteFile(filepath.Join(dir, "emptyrepo", "index.json"), []byte(`{"schemaVersion":2,"mediaType":"application/vnd.oci.image.index.v1+json","manifests":[]}`), 0o644)
		args := []string{"--dir", dir, "--store-ro"}
		label := fmt.Sprintf("read-only store, SIGTERM after %d read requests", k)
		before := snapshot(dir)
		r, err := start(newCmd, args)
		if err != nil {
			add(label, args, "serve-starts", "serve-did-not-start", "%v", err)
			continue
		}
		res.Points++
		reads := []string{"/v2/r/tags/list", "/v2/emptyrepo/tags/list", "/v2/r/manifests/t"}
		for i := 0; i < k; i++ {
			if g := do(r.srv, "GET", reads[i], nil, "Accept", types.MediaTypeOCI1Manifest); g.status != 200 {
				add(label, args, "history", "history-step-failed", "GET %s answered %d", reads[i], g.status)
			}
		}
		err, hung := r.stop()
		res.Probes++
		if hung {
			add(label, args, "termination-clean", "termination-hangs", "serve did not return within 120 s after SIGTERM")
			return
		}
		if err != nil {
			add(label, args, "termination-clean", "termination-error", "serve returned %v", err)
		}
		if after := snapshot(dir); after != before {
			add(label, args, "storage-intact", "read-only-directory-changed-by-termination", "the directory of a read-only store changed between start and the return of serve:\n%s", treeDiff(before, after))
		}
		_ = os.RemoveAll(dir)
	}
	res.Parts["read_only_termination_prefixes"] = 4
}

func treeDiff(a, b string) string {
	in := func(s string) map[string]bool {
		m := map[string]bool{}
		for _, l := range strings.Split(s, "\n") {
			m[l] = true
		}
		return m
	}
	ma, mb := in(a), in(b)
	var out []string
	for l := range ma {
		if !mb[l] {
			out = append(out, "  - "+l)
		}
	}
	for l := range mb {
		if !ma[l] {
			out = append(out, "  + "+l)
		}
	}
	sort.Strings(out)
	return strings.Join(out, "\n")
}

// earlyTermination: the signal arrives before Server.Run has registered its listener ("a termination signal at any time").
func earlyTermination(newCmd func() *cobra.Command, base string, res *Result, add adder) {
	dir := filepath.Join(base, "early")
	_ = os.MkdirAll(dir, 0o755)
	args := []string{"--dir", dir}
	for len(capCh) > 0 {
		<-capCh
	}
	cmd := newCmd()
	var errBuf bytes.Buffer
	cmd.SetErr(&errBuf)
	cmd.SetOut(&errBuf)
	cmd.SetArgs(append([]string{"serve", "--addr", "127.0.0.1", "--port", fmt.Sprint(freePort()), "-v", "error"}, args...))
	earlySignal = true
	errCh := make(chan error, 1)
	go func() { errCh <- cmd.Execute() }()
	res.Points++
	res.Probes++
	select {
	case err := <-errCh:
		earlySignal = false
		if err != nil {
			add("SIGTERM before the listener is registered", args, "termination-clean", "early-signal-error", "serve returned %v", err)
		}
		capMu.Lock()
		s := capSrv
		capMu.Unlock()
		if s != nil {
			if g := do(s, "GET", "/v2/", nil); g.status != 500 {
				add("SIGTERM before the listener is registered", args, "store-closed", "store-not-closed-after-early-signal", "serve returned but the store was not closed (the server still answers %d)", g.status)
			}
		}
	case <-time.After(3 * time.Second):
		earlySignal = false
		add("SIGTERM before the listener is registered", args, "termination-clean", "termination-hangs:signal-before-the-listener-is-registered", "SIGTERM delivered after the signal handler was installed but before Server.Run registered the http server: Shutdown reports that the server is not running, and serve never returns (the listener keeps running)")
		// get rid of the stray server: now that it listens, a second signal finds it... the handler goroutine has already exited, so close it directly
		capMu.Lock()
		s := capSrv
		capMu.Unlock()
		if s != nil {
			_ = s.Shutdown(context.Background())
		}
		select {
		case <-errCh:
		case <-time.After(2 * time.Second):
		}
	}
}

func copyTree(src, dst string) {
	_ = filepath.Walk(src, func(p string, fi os.FileInfo, err error) error {
		if err != nil {
			return nil
		}
		rel, _ := filepath.Rel(src, p)
		t := filepath.Join(dst, rel)
		if fi.IsDir() {
			_ = os.MkdirAll(t, 0o755)
			return nil
		}
		b, err := os.ReadFile(p)
		if err == nil {
			_ = os.WriteFile(t, b, 0o644)
			_ = os.Chtimes(t, fi.ModTime(), fi.ModTime())
		}
		return nil
	})
}
