package checks

import (
	"encoding/base64"
	"encoding/json"
	"fmt"
	"net/url"
	"strings"
	"syscall"

	"github.com/olareg/olareg/internal/verif/h"
	"github.com/olareg/olareg/internal/verif/vos"
	"github.com/olareg/olareg/internal/verif/vrt"
)

// C08, fault family: an upload that meets an I/O error. For every mutating filesystem call of an upload script on the
// directory store the call fails (EIO, nothing done; for a write also ENOSPC after half of the bytes reached the file);
// the client then does what the protocol tells it to: it asks the session for the bytes received and resumes the
// intended content from there, completing with the digest of the intended content. Whatever the registry answers on the
// way, "no partial content ever becomes a blob" and "on completion the stored blob is the concatenation of the accepted
// chunks": an acknowledged completion serves exactly the intended bytes, and nothing stored fails to hash to its name.

type c08FaultArg struct {
	Script int `json:"script"`
}

type c08FaultOut struct {
	Viol   []h.Violation `json:"viol"`
	Points int           `json:"points"`
	Runs   int           `json:"runs"`
	Acked  int           `json:"acked"` // runs whose completion was acknowledged in spite of the fault
	Sample []string      `json:"sample"`
}

type c08Script struct {
	name     string
	content  string
	chunks   []int // sizes of the PATCH chunks; the rest goes with the PUT
	monolith bool  // POST ?digest= with the whole body
	alg      string
}

func c08FaultScripts() []c08Script {
	return []c08Script{
		{name: "POST, PATCH 6, PATCH 6, PUT", content: "hello world!", chunks: []int{6, 6}, alg: "sha256"},
		{name: "POST, PATCH 4, PUT with the last 8 bytes", content: "hello world!", chunks: []int{4}, alg: "sha256"},
		{name: "POST, PUT with everything", content: "hello world!", alg: "sha256"},
		{name: "POST ?digest= with everything", content: "hello world!", monolith: true, alg: "sha256"},
		{name: "POST, PATCH 6, PATCH 6, PUT with a sha512 digest", content: "hello world!", chunks: []int{6, 6}, alg: "sha512"},
	}
}

// c08FaultRun plays one script as a resuming client. It returns the status of the completing request (0 if the client
// had to give up) and a transcript.
func c08FaultRun(w *h.World, sc c08Script) (int, []string) {
	var tr []string
	note := func(f string, a ...any) { tr = append(tr, fmt.Sprintf(f, a...)) }
	content := []byte(sc.content)
	dig := dg(sc.alg, content)
	if sc.monolith {
		r := w.Do(h.Req{Method: "POST", Path: "/v2/a/blobs/uploads/", Query: "digest=" + url.QueryEscape(dig), Body: content})
		note("POST ?digest= -> %d", r.Status)
		return r.Status, tr
	}
	r := w.Do(h.Req{Method: "POST", Path: "/v2/a/blobs/uploads/"})
	note("POST -> %d", r.Status)
	if r.Status != 202 {
		return 0, tr
	}
	path, state := parseLocation(r.H.Get("Location"))
	offset := 0
	// status asks the session what it holds; ok=false: the session is gone
	status := func() (int, string, bool) {
		g := w.Do(h.Req{Method: "GET", Path: path})
		note("GET status -> %d Range=%q", g.Status, g.H.Get("Range"))
		if g.Status != 204 {
			return 0, "", false
		}
		// the offset the session reports: the state token of the Location (olareg's resume contract; the Range header
		// of an empty session is the degenerate "0--1")
		_, st := parseLocation(g.H.Get("Location"))
		off, err := decodeState(st)
		if err != nil {
			return 0, "", false
		}
		if rg := g.H.Get("Range"); off > 0 && rg != fmt.Sprintf("0-%d", off-1) {
			note("Range %q disagrees with the state token offset %d", rg, off)
		}
		return off, st, true
	}
	for _, n := range sc.chunks {
		if offset >= len(content) {
			break
		}
		end := offset + n
		if end > len(content) {
			end = len(content)
		}
		p := w.Do(h.Req{Method: "PATCH", Path: path, Query: "state=" + state, Body: content[offset:end],
			Header: map[string]string{"Content-Range": fmt.Sprintf("%d-%d", offset, end-1)}})
		note("PATCH %d-%d -> %d", offset, end-1, p.Status)
		if p.Status == 202 {
			_, state = parseLocation(p.H.Get("Location"))
			offset = end
			continue
		}
		// the chunk failed: ask what the session holds and go on from there
		off, st, ok := status()
		if !ok {
			return 0, tr
		}
		if off < 0 || off > len(content) {
			note("reported offset %d is outside the content", off)
			return 0, tr
		}
		offset, state = off, st
	}
	p := w.Do(h.Req{Method: "PUT", Path: path, Query: "state=" + state + "&digest=" + url.QueryEscape(dig), Body: content[offset:]})
	note("PUT %d- -> %d", offset, p.Status)
	if p.Status >= 500 {
		// the completion itself met the fault: one more attempt from what the session reports
		if off, st, ok := status(); ok && off >= 0 && off <= len(content) {
			p = w.Do(h.Req{Method: "PUT", Path: path, Query: "state=" + st + "&digest=" + url.QueryEscape(dig), Body: content[off:]})
			note("PUT %d- (again) -> %d", off, p.Status)
		}
	}
	return p.Status, tr
}

func decodeState(st string) (int, error) {
	b, err := base64.RawURLEncoding.DecodeString(st)
	if err != nil {
		return 0, err
	}
	var s struct {
		Offset int `json:"offset"`
	}
	if err := json.Unmarshal(b, &s); err != nil {
		return 0, err
	}
	return s.Offset, nil
}

func c08FaultJob(a c08FaultArg) (out c08FaultOut) {
	sc := c08FaultScripts()[a.Script]
	conf := &h.Conf{Name: "dir", Store: "dir"}
	// dry run: the mutating calls of the script
	var ops []vos.Op
	func() {
		w := h.NewWorld(conf, vrt.Config{})
		defer w.Destroy()
		base := vos.MutCount()
		st, tr := c08FaultRun(w, sc)
		if st != 201 {
			out.Viol = append(out.Viol, h.V("upload-completes", "fault-free-upload-not-acknowledged", "the script without a fault ends with %d: %v", st, tr))
		}
		for _, o := range vos.Log() {
			if o.Mut && o.Seq > base {
				ops = append(ops, o)
			}
		}
	}()
	out.Points = len(ops)
	content := []byte(sc.content)
	digs := []string{dg("sha256", content), dg("sha512", content)}
	for k := 1; k <= len(ops); k++ {
		op := ops[k-1]
		variants := []int{-1}
		if (op.Kind == "write" || op.Kind == "writefile") && op.N >= 2 {
			variants = append(variants, op.N/2)
		}
		for _, cut := range variants {
			func() {
				w := h.NewWorld(conf, vrt.Config{})
				defer w.Destroy()
				what := fmt.Sprintf("%s: mutating call %d (%s %s) fails with EIO", sc.name, k, op.Kind, shortP(op.Path))
				if cut >= 0 {
					vos.FailShortAt(vos.MutCount()+k, cut, syscall.ENOSPC)
					what = fmt.Sprintf("%s: mutating call %d (%s %s) stores %d of %d bytes and fails with ENOSPC", sc.name, k, op.Kind, shortP(op.Path), cut, op.N)
				} else {
					vos.FailAt(vos.MutCount()+k, syscall.EIO)
				}
				st, tr := c08FaultRun(w, sc)
				out.Runs++
				var vs []h.Violation
				for _, v := range w.AutoViol {
					if strings.HasPrefix(v.Sig, "panic") {
						vs = append(vs, v)
					}
				}
				w.AutoViol = nil
				if st == 201 {
					out.Acked++
					g := w.Get("/v2/a/blobs/" + dg(sc.alg, content))
					if g.Status != 200 || string(g.Body) != sc.content {
						vs = append(vs, h.V("completion-stores-the-accepted-chunks", "acknowledged-upload-reads-back-wrong-after-io-error", "the completion was acknowledged but the blob reads back as %s (pushed %q)", g, sc.content))
					}
				}
				vs = append(vs, c01HashInvariant(w, []string{"a"}, digs, nil)...)
				for _, v := range vs {
					v.Conf = "c08-fault-dir"
					v.History = []string{what}
					v.Detail += "\n  client transcript: " + strings.Join(tr, "; ")
					v.Sig = "after-io-error:" + v.Sig
					out.Viol = append(out.Viol, v)
				}
				if len(out.Sample) < 3 {
					out.Sample = append(out.Sample, what+" => "+strings.Join(tr, "; "))
				}
			}()
		}
	}
	return out
}

func shortP(p string) string {
	if i := strings.Index(p, "/a/"); i >= 0 {
		return p[i+1:]
	}
	return p
}

func init() {
	h.RegisterJob("c08fault", func(arg json.RawMessage) (any, error) {
		var a c08FaultArg
		if err := json.Unmarshal(arg, &a); err != nil {
			return nil, err
		}
		return c08FaultJob(a), nil
	})
	seqReplay := h.Replayers["C08"]
	h.Replayers["C08"] = func(tier string, v h.Violation) int {
		if v.Conf != "c08-fault-dir" {
			return seqReplay(tier, v)
		}
		for i, sc := range c08FaultScripts() {
			if len(v.History) == 0 || !strings.HasPrefix(v.History[0], sc.name+": ") {
				continue
			}
			n := 0
			for _, x := range c08FaultJob(c08FaultArg{Script: i}).Viol {
				if len(x.History) > 0 && x.History[0] == v.History[0] {
					fmt.Printf("VIOLATION property=C08 rule=%s sig=%s history=%v\n  %s\n", x.Rule, x.Sig, x.History, x.Detail)
					n++
				}
			}
			if n > 0 {
				return 1
			}
			fmt.Println("the fault run does not violate anything:", v.History)
			return 0
		}
		return 2
	}
	h.SeqExtras["C08"] = func(rep *h.Report) {
		rep.Rule += "; fault family (directory store): for every mutating filesystem call of five upload scripts the call fails (EIO, or for a write ENOSPC after half of the bytes) and the client resumes from the offset the session reports and completes with the digest of the intended content: an acknowledged completion serves exactly the intended bytes and nothing stored or served fails to hash to its name"
		pool := h.NewPool(8)
		defer pool.Close()
		var jobs []h.Job
		for i := range c08FaultScripts() {
			jobs = append(jobs, h.MkJob("c08fault", c08FaultArg{Script: i}))
		}
		points, runs, acked := 0, 0, 0
		for _, jr := range pool.Run(jobs, nil) {
			if jr.Died || jr.Error != "" {
				rep.Infra("c08 fault worker: %s\n%s", jr.Error, jr.Log)
				continue
			}
			var o c08FaultOut
			if err := json.Unmarshal(jr.Out, &o); err != nil {
				rep.Infra("decode: %v", err)
				continue
			}
			for _, v := range o.Viol {
				rep.AddViolation(v)
			}
			points += o.Points
			runs += o.Runs
			acked += o.Acked
			rep.Evals += o.Runs
			rep.Traces += o.Runs
			rep.Trans += o.Runs
			if len(rep.Samples) < 8 && len(o.Sample) > 0 {
				rep.Samples = append(rep.Samples, map[string]any{"fault": o.Sample[0]})
			}
		}
		rep.Parts = append(rep.Parts, map[string]any{"part": "io-faults", "scripts": len(c08FaultScripts()), "fault_points": points, "faulted_runs": runs, "runs_acknowledged_in_spite_of_the_fault": acked})
	}
}
