package checks

import (
	"fmt"
	"strings"
	"time"

	"github.com/olareg/olareg/config"
	"github.com/olareg/olareg/internal/verif/h"
	"github.com/olareg/olareg/internal/verif/vrt"
	"github.com/olareg/olareg/types"
)

// C05 — garbage collection never removes retained or recent content (sequential part; the
// schedule part races a step-by-step push with a pending collection tick, see c05sched.go).

func gcFix() *Fix {
	f := StdFix()
	// J: an image one of whose layers is the digest of manifest I1 (a digest in several roles)
	f.Image("J", mtImg, "c", []string{"I1"}, "", "", nil)
	// Z: an index listing I1 (while I1 may also be tagged)
	f.Index("Z", mtIdx, []string{"I1"}, "", "", nil)
	// C: "circular" as in the repository's own test: an index artifact whose child and subject are both X
	f.Index("C", mtIdx, []string{"X"}, "X", "application/x.test", nil)
	// D1: an image of the docker schema 2 media types
	f.Blob("dc", types.MediaTypeDocker2ImageConfig, []byte(`{"docker":true}`))
	f.Image("D1", types.MediaTypeDocker2Manifest, "dc", []string{"l2"}, "", "", nil)
	// b512: a blob addressed by its sha512 digest (a second algorithm directory in the layout)
	b := f.Blob("b512", "application/octet-stream", []byte("addressed by sha512"))
	b.Dig = h.Dig("sha512", b.Data)
	return f
}

// deps returns the items that must be present before n can be pushed (transitively, children first).
func (f *Fix) deps(n string) []string {
	var out []string
	seen := map[string]bool{}
	var rec func(x string)
	rec = func(x string) {
		it := f.Items[x]
		if it.Config != "" && !seen[it.Config] {
			seen[it.Config] = true
			out = append(out, it.Config)
		}
		for _, l := range it.Layers {
			if !seen[l] {
				seen[l] = true
				if f.Items[l].Manifest {
					rec(l)
				}
				out = append(out, l)
			}
		}
		for _, c := range it.Children {
			if !seen[c] {
				seen[c] = true
				rec(c)
				out = append(out, c)
			}
		}
	}
	rec(n)
	return out
}

// gcPushMacro pushes n completely: every missing dependency first (blobs monolithically, manifests by digest), then n.
func gcPushMacro(w *h.World, f *Fix, repo, n, tag string) []h.Violation {
	m := regM(w).Repo(repo)
	var vs []h.Violation
	for _, d := range f.deps(n) {
		it := f.Items[d]
		if it.Manifest {
			if _, ok := m.Mans[d]; ok && !m.Limbo[d] && w.HeadManifest(repo, it.Dig).Status == 200 {
				continue
			}
			// a layer that happens to be a manifest is pushed as a manifest: that is how its bytes get into the store
			r := w.PutManifest(repo, it.Dig, it.MT, it.Data)
			if r.Status != 201 {
				vs = append(vs, h.V("complete-push-acknowledged", "dependency-push-refused", "push of %s (needed by %s) answered %s", d, n, r))
				return vs
			}
			m.AcceptedRefs(f, it)
			m.PushManifest(it, "")
		} else {
			if _, ok := m.Cas[d]; ok && !m.Limbo[d] && w.Head("/v2/"+repo+"/blobs/"+it.Dig).Status == 200 {
				continue
			}
			r := w.PushBlob(repo, it.Data, it.Dig)
			if r.Status != 201 {
				vs = append(vs, h.V("complete-push-acknowledged", "dependency-push-refused", "upload of %s (needed by %s) answered %s", d, n, r))
				return vs
			}
			m.PushBlob(d)
		}
	}
	it := f.Items[n]
	ref := it.Dig
	if tag != "" {
		ref = tag
	}
	r := w.PutManifest(repo, ref, it.MT, it.Data)
	if r.Status != 201 {
		vs = append(vs, h.V("complete-push-acknowledged", "complete-push-refused", "push of %s after all its content answered %s", n, r))
		return vs
	}
	m.AcceptedRefs(f, it)
	m.PushManifest(it, tag)
	return vs
}

func gcTick(w *h.World) bool {
	d := vrt.NextPeriodic()
	if d < 0 {
		return false
	}
	vrt.Advance(d, false)
	return true
}

func c05Policies(tier string) []GCPolicy {
	var out []GCPolicy
	graces := []time.Duration{time.Hour, -1}
	if tier == "thorough" {
		for mask := 0; mask < 16; mask++ {
			for _, g := range graces {
				out = append(out, GCPolicy{Untagged: mask&1 != 0, Dangling: mask&2 != 0, WithSubj: mask&4 != 0, EmptyRepo: mask&8 != 0, Grace: g, Freq: 15 * time.Minute})
			}
		}
		return out
	}
	for _, p := range []GCPolicy{
		{Untagged: false, Dangling: false, WithSubj: true, EmptyRepo: true}, // the defaults
		{Untagged: true, Dangling: false, WithSubj: true, EmptyRepo: true},
		{Untagged: true, Dangling: true, WithSubj: false, EmptyRepo: false},
		{Untagged: true, Dangling: true, WithSubj: true, EmptyRepo: true},
		{Untagged: false, Dangling: true, WithSubj: false, EmptyRepo: false}, // only dangling referrers are collected (e510c2e)
	} {
		for _, g := range graces {
			p.Grace, p.Freq = g, 15*time.Minute
			out = append(out, p)
		}
	}
	return out
}

func c05Specs(tier string) []*h.SeqSpec {
	f := gcFix()
	const repo = "r"
	items := []string{"c", "l1", "l2", "e", "dc", "I1", "I2", "X", "Y", "A1", "A4", "A5", "J", "Z", "C", "D1", "b512"}
	var specs []*h.SeqSpec
	for _, store := range []string{"mem", "dir"} {
		for _, pol := range c05Policies(tier) {
			store, pol := store, pol
			var ops []h.Op
			macro := func(n, tag string) {
				name := "push " + n + " completely"
				if tag != "" {
					name += " as " + tag
				}
				ops = append(ops, h.Op{Name: name, Do: func(w *h.World) []h.Violation { return gcPushMacro(w, f, repo, n, tag) }})
			}
			macro("I1", "t1")
			macro("I2", "")
			macro("X", "x")
			macro("Y", "y")
			macro("A1", "")
			macro("A4", "")
			macro("A5", "")
			macro("J", "j")
			macro("Z", "")
			macro("C", "")
			macro("D1", "d") // an image of the docker schema 2 type: its config and layers are content like any other
			ops = append(ops, opPushBlob("C05", repo, f, "b512"))
			// a child that had a tag of its own when the index was pushed and lost it afterwards: it stays in the top-level
			// list as an untagged entry and is retained through the tagged index
			ops = append(ops, h.Op{Name: "push I1 as t1, X completely as x, then move t1 to I2", Do: func(w *h.World) []h.Violation {
				vs := gcPushMacro(w, f, repo, "I1", "t1")
				vs = append(vs, gcPushMacro(w, f, repo, "X", "x")...)
				return append(vs, gcPushMacro(w, f, repo, "I2", "t1")...)
			}})
			// one manifest under two tags, the older tag deleted again: the entry that carried it stays in the list without a
			// tag, in front of the entry that still carries one (a pass that judges a digest by its first entry drops the tag)
			// (RmDesc leaves the untagged entry behind the tagged one; removing an unrelated first entry moves the last entry
			// to the front: [I2:t8 I1:t1 I1:t9] -> [I2:t8 I1:t1 I1:{}] -> [I1:{} I1:t1])
			ops = append(ops, h.Op{Name: "push I2 as t8, I1 as t1 and as t9, delete tag t9, delete I2 by digest", Do: func(w *h.World) []h.Violation {
				vs := gcPushMacro(w, f, repo, "I2", "t8")
				vs = append(vs, gcPushMacro(w, f, repo, "I1", "t1")...)
				vs = append(vs, gcPushMacro(w, f, repo, "I1", "t9")...)
				w.Delete("/v2/" + repo + "/manifests/t9")
				regM(w).Repo(repo).DeleteTag("t9")
				w.Delete("/v2/" + repo + "/manifests/" + f.Items["I2"].Dig)
				regM(w).Repo(repo).DeleteManifest("I2")
				return vs
			}})
			// fine grained: the pieces of one image as separate steps (a collection can fall between them)
			ops = append(ops, opPushBlob("C05", repo, f, "c"), opPushBlob("C05", repo, f, "l1"))
			ops = append(ops, h.Op{Name: "push manifest I1 as t1 (blobs must be there)", Do: func(w *h.World) []h.Violation {
				m := regM(w).Repo(repo)
				it := f.Items["I1"]
				r := w.PutManifest(repo, "t1", it.MT, it.Data)
				if r.Status == 201 {
					m.AcceptedRefs(f, it)
					m.PushManifest(it, "t1")
				}
				return nil
			}})
			for _, t := range []string{"t1", "x", "j"} {
				t := t
				ops = append(ops, h.Op{Name: "delete tag " + t, Do: func(w *h.World) []h.Violation {
					w.Delete("/v2/" + repo + "/manifests/" + t)
					regM(w).Repo(repo).DeleteTag(t)
					return nil
				}})
			}
			for _, n := range []string{"I1", "X"} {
				n := n
				ops = append(ops, h.Op{Name: "delete " + n + " by digest", Do: func(w *h.World) []h.Violation {
					w.Delete("/v2/" + repo + "/manifests/" + f.Items[n].Dig)
					regM(w).Repo(repo).DeleteManifest(n)
					return nil
				}})
			}
			collected := func(w *h.World) { regM(w).Repo(repo).Collected(f, pol) }
			if pol.Grace > 0 {
				ops = append(ops, h.Op{Name: "advance grace/2", Do: func(w *h.World) []h.Violation {
					// the directory store may collect through the repository cache timer at some instant inside the interval;
					// what must be retained at the end of the interval had to be retained throughout
					vrt.Advance(pol.Grace/2+73*time.Second, false)
					collected(w)
					return nil
				}})
				ops = append(ops, h.Op{Name: "advance 1.2 x grace", Do: func(w *h.World) []h.Violation {
					// expiry of the repository cache entry (directory store) collects at some instant inside this interval:
					// only what must be retained throughout is demanded, so evaluate the model at the end
					vrt.Advance(pol.Grace+pol.Grace/5+29*time.Second, false)
					collected(w)
					return nil
				}})
			}
			ops = append(ops, h.Op{Name: "collection tick", Do: func(w *h.World) []h.Violation {
				if gcTick(w) {
					collected(w)
				}
				return nil
			}})
			depth := 3
			if tier == "thorough" || (pol.Name() == "UFDFSTET-grace1h0m0s") {
				depth = 4
			}
			specs = append(specs, &h.SeqSpec{
				Name: fmt.Sprintf("c05-%s-%s", store, pol.Name()),
				Conf: &h.Conf{Name: store, Store: store, Mod: func(c *config.Config) { pol.Apply(c) }},
				Init: func(w *h.World) {
					w.M = NewMRegFix(f)
					vrt.Advance(67*time.Second, false) // push instants never share the ticker's grid
				},
				Ops: ops,
				Model: func(w *h.World) string {
					return regM(w).String()
				},
				Probe: func(w *h.World) []h.Violation {
					vs := CheckRetained(w, f, regM(w).Repo(repo), repo, pol)
					// shape: the "circular" index artifact (its child is its subject) was pushed and nothing in the history tags anything
					circ, tagged := false, false
					for _, n := range w.Hist {
						if n == "push C completely" {
							circ = true
						}
						if strings.Contains(n, " as ") {
							tagged = true
						}
					}
					_ = tagged
					if circ {
						for i := range vs {
							vs[i].Sig = "retained-content-gone:after-push-of-index-artifact-whose-child-is-its-subject"
						}
					}
					return vs
				},
				NonTriv:  func(w *h.World) bool { return len(regM(w).Repo(repo).Mans) > 0 },
				MaxDepth: depth,
			})
			_ = items
		}
	}
	return specs
}

func init() {
	h.RegisterSeq(&h.SeqCheck{
		ID:    "C05",
		Level: "model_checking",
		Rule: "breadth-first search over all histories (bounded depth) of complete pushes of images, nested indexes, referrers, referrers of referrers, dangling and 'circular' subjects and a digest in several roles, step-by-step pushes, tag and digest deletes, virtual time (grace/2, 1.2 x grace: the directory store collects through the repository cache timer) and collection ticks delivered to the real gcTicker goroutine, for 8 (quick) / 32 (thorough) policy combinations on both stores; " +
			"in every distinct state everything in the model's must-retain set (tagged manifests, closure over children/config/layers, referrers of retained subjects with their content, untagged manifests while untagged collection is off, everything younger than the grace period) must be served; non-trivial = a manifest is present",
		Assume: []string{"only what every reading of the statement retains is demanded (an untagged artifact whose subject is gone is not, it is C06's documented garbage)", "tick period 15 min, grace 1 h or disabled"},
		Specs: func(tier string) []*h.SeqSpec {
			return append(append(c05Specs(tier), nestedSpecs(tier)...), reuploadSpecs(tier)...)
		},
		Budget: func(tier string) time.Duration {
			if tier == "thorough" {
				return 14 * time.Minute
			}
			return 110 * time.Second
		},
	})
	h.Checks["C05"] = func(tier string) int {
		c := h.SeqChecks["C05"]
		rep := h.NewReport("C05", tier, c.Level)
		rep.Rule = c.Rule + "; plus 4 scenarios per store in which a collection tick runs while a push is in flight (manifest push over unprotected blobs without a grace period, upload and manifest push with a grace period, referrer push, re-tag racing with the delete of the last tag), all interleavings up to the preemption bound: linearizable, and an acknowledged tagged image is completely pullable at quiescence"
		rep.Assume = c.Assume
		h.RunSeqInto(rep, "C05", tier, time.Time{})
		h.RunSchedInto(rep, "C05sched", tier)
		c05ReadFaults(rep)
		return rep.Emit()
	}
}
