package checks

import (
	"encoding/json"
	"fmt"
	"net/url"
	"os"
	"path/filepath"
	"strings"
	"time"

	"github.com/olareg/olareg/config"
	"github.com/olareg/olareg/internal/verif/h"
	"github.com/olareg/olareg/internal/verif/vos"
	"github.com/olareg/olareg/internal/verif/vrt"
	"github.com/olareg/olareg/types"
)

// C16 — repositories are isolated and storage access stays inside the root.

var c16Universe = []string{"a", "a/b", "a/b/c", "ab", "a-b", "b", "a/sha256", "a/blobs", "a/index.json", "a/oci-layout", c16Alias}

// c16Alias is a grammar-legal nested name whose directory is where repository a keeps the blob l2 (a reserved word in
// an inner element): the directory backed stores have to refuse it like any other name with a reserved element.
var c16Alias = "a/blobs/sha256/" + strings.TrimPrefix(StdFix().Items["l2"].Dig, "sha256:")

func c16Reserved(n string) bool {
	for _, el := range strings.Split(n, "/") {
		if el == "blobs" || el == "index.json" || el == "oci-layout" {
			return true
		}
	}
	return false
}

// c16Owner: the universe repository a path (relative to the root) belongs to: the longest universe name that is a prefix.
func c16Owner(rel string) string {
	best := ""
	for _, n := range c16Universe {
		if c16Reserved(n) {
			continue
		}
		if (rel == n || strings.HasPrefix(rel, n+"/")) && len(n) > len(best) {
			// a/sha256 owns a/sha256/... ; but a/blobs/sha256/... belongs to a
			best = n
		}
	}
	return best
}

// c16PathCheck: the filesystem calls of a request addressed to repository x (optionally mounting from src).
func c16PathCheck(w *h.World, logStart int, what, x, src string) []h.Violation {
	var vs []h.Violation
	if w.Dir == "" {
		// a memory store without a root directory has no business with the filesystem at all (whatever it finds below
		// the process's working directory is not the registry's)
		for _, op := range vos.Log()[logStart:] {
			vs = append(vs, h.V("storage-inside-root", "fs-access-by-memory-store-without-root:"+op.Kind, "%s: the memory store (no root directory configured) called %s %s", what, op.Kind, op.Path))
			break
		}
		return vs
	}
	for _, op := range vos.Log()[logStart:] {
		for _, p := range []string{op.Path, op.Path2} {
			if p == "" {
				continue
			}
			if p != w.Dir && !strings.HasPrefix(p, w.Dir+"/") {
				vs = append(vs, h.V("storage-inside-root", "fs-access-outside-root", "%s: %s %s is outside the root", what, op.Kind, p))
				continue
			}
			rel := strings.TrimPrefix(strings.TrimPrefix(p, w.Dir), "/")
			if rel == "" {
				continue
			}
			owner := c16Owner(rel)
			if owner == x || (src != "" && owner == src) {
				continue
			}
			if w.Conf.Store != "dir" && !op.Mut {
				// the memory store over a directory accepts names with reserved elements: root/a/blobs is then both inside
				// a's layout and the own directory of repository a/blobs; looking there is inside "the addressed
				// repository's own directory" (what is served from it is judged by the content comparison)
				own := func(t string) bool { return t != "" && (rel == t || strings.HasPrefix(rel, t+"/")) }
				if own(x) || own(src) {
					continue
				}
			}
			if owner == "" || strings.HasPrefix(x, owner+"/") || (src != "" && strings.HasPrefix(src, owner+"/")) {
				// an ancestor directory of the addressed repository: only looked at or created on the way down
				isAnc := func(t string) bool { return t != "" && (t == rel || strings.HasPrefix(t, rel+"/")) }
				if (isAnc(x) || isAnc(src)) && (op.Kind == "stat" || op.Kind == "lstat" || op.Kind == "mkdirall" || op.Kind == "mkdir") {
					continue
				}
				if owner != "" && rel != owner && !strings.HasPrefix(rel, owner+"/") {
					continue
				}
			}
			if owner == "" && c16Reserved(x) && (rel == x || strings.HasPrefix(rel, x+"/")) {
				// a reserved name that the store accepted: judged by the refusal clause, not here
				continue
			}
			vs = append(vs, h.V("access-inside-own-directory", "fs-access-to-other-repository:"+op.Kind, "%s (addressed to %s): %s %s belongs to %q", what, x, op.Kind, rel, owner))
		}
	}
	return vs
}

func c16Specs(tier string) []*h.SeqSpec {
	f := StdFix()
	type pair struct{ x, y string }
	pairs := []pair{{"a", "a/b"}, {"a/b", "a"}, {"a", "ab"}, {"a/sha256", "a"}, {"a/blobs", "a"}, {c16Alias, "a"}}
	if tier == "thorough" {
		pairs = nil
		base := []string{"a", "a/b", "a/b/c", "ab", "a-b", "b"}
		for _, x := range base {
			for _, y := range base {
				if x != y {
					pairs = append(pairs, pair{x, y})
				}
			}
		}
		for _, x := range []string{"a/sha256", "a/blobs", "a/index.json", "a/oci-layout", c16Alias} {
			pairs = append(pairs, pair{x, "a"}, pair{"a", x})
		}
	}
	big := refDesc(f.Items["A1"])
	one := int64(len(h.Index(mtIdx, []h.Desc{big}, nil, "", nil))) + 8
	items := []string{"c", "l1", "l2", "e", "I1", "A1", "A2"}
	var specs []*h.SeqSpec
	stores := []string{"mem", "dir"}
	if tier == "thorough" {
		stores = []string{"mem", "dir", "memdir"}
	}
	for _, store := range stores {
		for _, pr := range pairs {
			store, pr := store, pr
			var ops []h.Op
			wrap := func(name, repo, src string, do func(w *h.World) []h.Violation) {
				ops = append(ops, h.Op{Name: name, Do: func(w *h.World) []h.Violation {
					ls := vos.LogLen()
					vs := do(w)
					return append(vs, c16PathCheck(w, ls, name, repo, src)...)
				}})
			}
			pushBlob := func(repo, b string) {
				wrap(fmt.Sprintf("push blob %s to %s", b, repo), repo, "", func(w *h.World) []h.Violation {
					r := w.PushBlob(repo, f.Items[b].Data, f.Items[b].Dig)
					if r.Status == 201 {
						regM(w).Repo(repo).PushBlob(b)
					} else if !c16Reserved(repo) {
						return []h.Violation{h.V("valid-upload-acknowledged", "valid-blob-refused", "upload to %s answered %s", repo, r)}
					} else if r.Status >= 500 {
						return []h.Violation{h.V("refused-4xx", "reserved-name-5xx", "upload to reserved name %s answered %s", repo, r)}
					}
					return nil
				})
			}
			pushMan := func(repo, n, tag string) {
				base := opPushMan("C16", repo, f, n, tag)
				wrap(base.Name, repo, "", func(w *h.World) []h.Violation {
					if c16Reserved(repo) {
						it := f.Items[n]
						ref := it.Dig
						if tag != "" {
							ref = tag
						}
						if r := w.PutManifest(repo, ref, it.MT, it.Data); r.Status == 201 {
							regM(w).Repo(repo).PushManifest(it, tag)
						}
						return nil
					}
					return base.Do(w)
				})
			}
			for _, b := range []string{"c", "l1", "e"} {
				pushBlob(pr.x, b)
			}
			pushBlob(pr.y, "l1")
			pushMan(pr.x, "I1", "t")
			pushMan(pr.x, "A1", "")
			pushMan(pr.x, "A2", "u")
			pushMan(pr.y, "I1", "t")
			// sessions
			wrap("open session in "+pr.x, pr.x, "", func(w *h.World) []h.Violation {
				r := w.Do(h.Req{Method: "POST", Path: "/v2/" + pr.x + "/blobs/uploads/"})
				if r.Status == 202 {
					p, _ := parseLocation(r.H.Get("Location"))
					w.Slots["s1"] = p[strings.LastIndex(p, "/")+1:]
				}
				return nil
			})
			wrap("use the session of "+pr.x+" through "+pr.y, pr.y, "", func(w *h.World) []h.Violation {
				id := w.Slots["s1"]
				if id == "" {
					return nil
				}
				var vs []h.Violation
				p := "/v2/" + pr.y + "/blobs/uploads/" + id
				for _, rq := range []h.Req{{Method: "GET", Path: p}, {Method: "PATCH", Path: p, Query: "state=" + stateToken(0), Body: []byte("x")}, {Method: "DELETE", Path: p}} {
					if r := w.Do(rq); r.Status < 400 || r.Status >= 500 {
						vs = append(vs, h.V("session-isolated", "session-served-from-other-repository:"+rq.Method, "%s %s answered %s", rq.Method, p, r))
					}
				}
				if r := w.Do(h.Req{Method: "GET", Path: "/v2/" + pr.x + "/blobs/uploads/" + id}); r.Status != 204 {
					vs = append(vs, h.V("session-isolated", "session-altered-through-other-repository", "the session of %s no longer answers after requests through %s: %s", pr.x, pr.y, r))
					delete(w.Slots, "s1")
				}
				return vs
			})
			// mounts
			for _, d := range []struct{ to, from string }{{pr.y, pr.x}, {pr.x, pr.y}} {
				d := d
				wrap(fmt.Sprintf("mount c into %s from %s", d.to, d.from), d.to, d.from, func(w *h.World) []h.Violation {
					m := regM(w)
					dig := f.Items["c"].Dig
					r := w.Do(h.Req{Method: "POST", Path: "/v2/" + d.to + "/blobs/uploads/", Query: "mount=" + url.QueryEscape(dig) + "&from=" + url.QueryEscape(d.from)})
					_, srcHas := m.Repo(d.from).Cas["c"]
					_, dstHas := m.Repo(d.to).Cas["c"]
					switch r.Status {
					case 201:
						if !srcHas && !dstHas {
							return []h.Violation{h.V("mount-needs-source", "mount-succeeded-without-source", "mount of c into %s from %s answered 201 although %s does not hold it", d.to, d.from, d.from)}
						}
						m.Repo(d.to).PushBlob("c")
					case 202:
						// a session was handed out: cancel it
						p, _ := parseLocation(r.H.Get("Location"))
						w.Do(h.Req{Method: "DELETE", Path: p})
					}
					return nil
				})
			}
			// a mount source that leaves the root: the sibling directory next to the root is a layout that holds l2
			for _, src := range []string{"../sibling", pr.x + "/" + strings.Repeat("../", strings.Count(pr.x, "/")+2) + "sibling"} {
				src := src
				wrap("mount l2 into "+pr.x+" from "+src+" (outside the root)", pr.x, "", func(w *h.World) []h.Violation {
					dig := f.Items["l2"].Dig
					if h.Dig("sha256", []byte("layer-2")) != dig {
						panic("the sibling layout's blob is not l2")
					}
					r := w.Do(h.Req{Method: "POST", Path: "/v2/" + pr.x + "/blobs/uploads/", Query: "mount=" + url.QueryEscape(dig) + "&from=" + url.QueryEscape(src)})
					switch r.Status {
					case 201:
						if _, has := regM(w).Repo(pr.x).Cas["l2"]; !has {
							regM(w).Repo(pr.x).PushBlob("l2") // keep the model in step with what was acknowledged
							return []h.Violation{h.V("mount-needs-source", "mount-from-outside-the-root", "mount of l2 into %s from %q answered 201: the content came from a directory outside the root", pr.x, src)}
						}
					case 202:
						p, _ := parseLocation(r.H.Get("Location"))
						w.Do(h.Req{Method: "DELETE", Path: p})
					}
					return nil
				})
			}
			// digests with dot segments inside a manifest body (nothing but the store looks at them): an index pushed to x whose child
			// "digest" points at a blob of y, or at a file outside the root; then the tag is read with an Accept that selects the child
			for _, tgt := range []struct{ name, dig string }{
				{"a blob of " + pr.y, "sha256:" + strings.Repeat("../", strings.Count(pr.x, "/")+3) + pr.y + "/blobs/sha256/" + strings.TrimPrefix(f.Items["l1"].Dig, "sha256:")},
				{"the sentinel file outside the root", "sha256:" + strings.Repeat("../", strings.Count(pr.x, "/")+4) + "sentinel.txt"},
			} {
				tgt := tgt
				wrap("push to "+pr.x+" an index whose child digest names "+tgt.name+", then read it", pr.x, "", func(w *h.World) []h.Violation {
					body := []byte(strings.Replace(string(h.Index(mtIdx, []h.Desc{f.Items["I1"].Desc()}, nil, "", nil)), f.Items["I1"].Dig, tgt.dig, 1))
					var vs []h.Violation
					r := w.Do(h.Req{Method: "PUT", Path: "/v2/" + pr.x + "/manifests/trav", Body: body, Header: map[string]string{"Content-Type": mtIdx}})
					if r.Status == 201 {
						vs = append(vs, h.V("content-only-where-pushed", "manifest-with-path-digest-accepted", "an index whose child digest is %q was acknowledged by %s", tgt.dig, pr.x))
					}
					g := w.Get("/v2/"+pr.x+"/manifests/trav", "Accept", mtImg)
					if g.Status == 200 && (string(g.Body) == string(f.Items["l1"].Data) || string(g.Body) == "do not touch") {
						vs = append(vs, h.V("content-only-where-pushed", "foreign-bytes-served-through-body-digest", "GET %s/manifests/trav returned bytes of %s", pr.x, tgt.name))
					}
					return vs
				})
			}
			// paging links of x replayed against y
			wrap("replay the referrers continuation link of "+pr.x+" against "+pr.y, pr.y, pr.x, func(w *h.World) []h.Violation {
				var vs []h.Violation
				for _, p := range w.Referrers(pr.x, f.Items["I1"].Dig, "") {
					next := h.NextLink(p)
					if next == "" {
						continue
					}
					nu, err := url.Parse(next)
					if err != nil {
						continue
					}
					probes := []h.Req{{Method: "GET", Path: "/v2/" + pr.y + "/referrers/" + f.Items["I1"].Dig, Query: nu.RawQuery}}
					// the same parts redistributed over the request: when x is y/<last>, ask y for "subject" <last> with the real
					// subject in the cache parameter and the response digest inside the filter (and the other way round): however
					// the page cache composes its key, the parts of one request must not read as those of another
					if strings.HasPrefix(pr.x, pr.y+"/") {
						last := strings.TrimPrefix(pr.x, pr.y+"/")
						cacheDig := nu.Query().Get("cache")
						for _, sep := range []string{"/", "|", ":", ",", " "} {
							q := url.Values{}
							q.Set("cache", f.Items["I1"].Dig)
							q.Set("page", nu.Query().Get("page"))
							q.Set("artifactType", cacheDig+sep)
							probes = append(probes, h.Req{Method: "GET", Path: "/v2/" + pr.y + "/referrers/" + last, Query: q.Encode()})
						}
					}
					for _, rq := range probes {
						r := w.Do(rq)
						var idx types.Index
						if r.Status != 200 || json.Unmarshal(r.Body, &idx) != nil {
							continue
						}
						my := regM(w).Repo(pr.y)
						for _, dsc := range idx.Manifests {
							it := f.ByDigest(dsc.Digest.String())
							if it == nil {
								continue
							}
							if _, ok := my.Mans[it.Name]; !ok {
								vs = append(vs, h.V("content-only-where-pushed", "referrers-page-of-other-repository", "GET %s?%s lists %s, which was only pushed to %s", rq.Path, rq.Query, it.Name, pr.x))
							}
						}
					}
				}
				return vs
			})
			depth := 4
			if tier == "thorough" {
				depth = 4
			}
			specs = append(specs, &h.SeqSpec{
				Name: fmt.Sprintf("c16-%s-%s-vs-%s", store, strings.ReplaceAll(pr.x, "/", "_"), strings.ReplaceAll(pr.y, "/", "_")),
				Conf: &h.Conf{Name: store, Store: store, Nest: true, Mod: func(c *config.Config) { c.API.Referrer.Limit = one }},
				Init: func(w *h.World) {
					w.M = NewMRegFix(f)
					if w.Outer != "" {
						w.Aux["outer"] = c16Outer(w)
					}
				},
				Ops:   ops,
				Model: func(w *h.World) string { return regM(w).String() + "|" + w.Slots["s1"] },
				Probe: func(w *h.World) []h.Violation {
					m := regM(w)
					var vs []h.Violation
					ls := vos.LogLen()
					for _, n := range c16Universe {
						if store != "mem" && c16Reserved(n) {
							continue // the directory backed stores refuse these names
						}
						mr := m.Repo(n)
						d := DiffModel(w, f, mr, DiffOpts{Repo: n, Items: items, Tags: []string{"t", "u"}, Subjects: []string{f.Items["I1"].Dig}})
						for i := range d {
							if n != pr.x && n != pr.y || strings.Contains(d[i].Sig, "unexpected") || strings.Contains(d[i].Sig, "extra") {
								d[i].Sig = "leak:" + d[i].Sig
							}
							d[i].Detail = "repository " + n + ": " + d[i].Detail
						}
						vs = append(vs, d...)
					}
					_ = ls
					// the sentinel tree around the root
					if w.Outer != "" {
						if snap := c16Outer(w); snap != w.Aux["outer"] {
							vs = append(vs, h.V("storage-inside-root", "sentinel-tree-changed", "the directory around the root changed:\n%s", lineDiff(w.Aux["outer"], snap)))
						}
					}
					return vs
				},
				NonTriv:  func(w *h.World) bool { return len(regM(w).Repo(pr.x).Cas)+len(regM(w).Repo(pr.y).Cas) > 0 },
				MaxDepth: depth,
			})
		}
	}
	specs = append(specs, c16RootSpellings(f)...)
	return specs
}

// c16RootSpellings: the root directory is configured in a spelling that is not the cleaned one (trailing separator as in
// "--dir mirror/", a doubled separator, "./" and "../" elements). Repositories (plain and nested) are filled and emptied,
// collections run on ticks and at a restart and remove the emptied layouts. Every filesystem call, cleaned, stays inside the
// root; the sentinel tree around the root and the root directory itself stay as they were.
func c16RootSpellings(f *Fix) []*h.SeqSpec {
	var specs []*h.SeqSpec
	spell := []struct {
		name string
		f    func(outer string) string
	}{
		{"trailing-separator", func(o string) string { return o + "/root/" }},
		{"doubled-separator", func(o string) string { return o + "//root" }},
		{"dot-element", func(o string) string { return o + "/./root" }},
		{"dot-dot-element", func(o string) string { return o + "/sibling/../root" }},
	}
	pol := GCPolicy{Untagged: true, Dangling: true, WithSubj: true, EmptyRepo: true, Grace: -1, Freq: 15 * time.Minute}
	for _, sp := range spell {
		sp := sp
		check := func(name string, do func(w *h.World)) h.Op {
			return h.Op{Name: name, Do: func(w *h.World) []h.Violation {
				ls := vos.LogLen()
				do(w)
				vrt.Quiesce()
				var vs []h.Violation
				for _, op := range vos.Log()[ls:] {
					for _, p := range []string{op.Path, op.Path2} {
						if p == "" {
							continue
						}
						if c := filepath.Clean(p); c != w.Dir && !strings.HasPrefix(c, w.Dir+"/") {
							vs = append(vs, h.V("storage-inside-root", "fs-access-outside-root", "%s (root configured as %q): %s %s is outside the root", name, w.Cfg.Storage.RootDir, op.Kind, p))
						} else if c == w.Dir && op.Mut && op.Kind != "mkdir" && op.Kind != "mkdirall" {
							vs = append(vs, h.V("storage-inside-root", "root-directory-itself-changed", "%s (root configured as %q): %s %s acts on the root directory itself, an entry of the directory around it", name, w.Cfg.Storage.RootDir, op.Kind, p))
						}
					}
				}
				if snap := c16Outer(w); snap != w.Aux["outer"] {
					vs = append(vs, h.V("storage-inside-root", "sentinel-tree-changed", "the directory around the root changed:\n%s", lineDiff(w.Aux["outer"], snap)))
				}
				if st, err := os.Stat(w.Dir); err != nil || !st.IsDir() {
					vs = append(vs, h.V("storage-inside-root", "root-directory-removed", "%s (root configured as %q): the root directory is gone afterwards", name, w.Cfg.Storage.RootDir))
				}
				return vs
			}}
		}
		var ops []h.Op
		l1 := f.Items["l1"]
		for _, repo := range []string{"a", "a/b/c"} {
			repo := repo
			ops = append(ops, check("push blob l1 to "+repo, func(w *h.World) {
				if w.PushBlob(repo, l1.Data, l1.Dig).Status == 201 {
					w.Slots["has:"+repo] = "1"
				}
			}))
			ops = append(ops, check("delete blob l1 from "+repo, func(w *h.World) {
				if w.Do(h.Req{Method: "DELETE", Path: "/v2/" + repo + "/blobs/" + l1.Dig}).Status == 202 {
					delete(w.Slots, "has:"+repo)
				}
			}))
		}
		// an unreferenced blob may be collected by a pass (there is no grace period here): its presence is open afterwards
		open := func(w *h.World) {
			for k, v := range w.Slots {
				if strings.HasPrefix(k, "has:") && v == "1" {
					w.Slots[k] = "?"
				}
			}
		}
		ops = append(ops, check("collection tick", func(w *h.World) { gcTick(w); open(w) }))
		ops = append(ops, check("restart", func(w *h.World) { _ = w.Reopen(); open(w) }))
		specs = append(specs, &h.SeqSpec{
			Name: "c16-dir-root-spelled-with-" + sp.name,
			Conf: &h.Conf{Name: "dir-" + sp.name, Store: "dir", Nest: true, Mod: func(c *config.Config) {
				pol.Apply(c)
				c.Storage.RootDir = sp.f(filepath.Dir(c.Storage.RootDir))
			}},
			Init: func(w *h.World) { w.Aux["outer"] = c16Outer(w) },
			Ops:  ops,
			Model: func(w *h.World) string {
				return w.Slots["has:a"] + "|" + w.Slots["has:a/b/c"]
			},
			Probe: func(w *h.World) []h.Violation {
				var vs []h.Violation
				for _, repo := range []string{"a", "a/b/c"} {
					want := 404
					switch w.Slots["has:"+repo] {
					case "1":
						want = 200
					case "?":
						continue
					}
					if r := w.Head("/v2/" + repo + "/blobs/" + l1.Dig); r.Status != want {
						vs = append(vs, h.V("content-only-where-pushed", "blob-presence-wrong-under-root-spelling", "HEAD of l1 in %s (root configured as %q) answers %s, want %d", repo, w.Cfg.Storage.RootDir, r, want))
					}
				}
				return vs
			},
			NonTriv:  func(w *h.World) bool { return len(w.Hist) >= 2 },
			MaxDepth: 5,
		})
	}
	return specs
}

// c16Outer snapshots the outer directory without the root.
func c16Outer(w *h.World) string {
	var lines []string
	for _, l := range strings.Split(h.SnapshotTree(w.Outer), "\n") {
		if strings.HasPrefix(l, "root/") || strings.HasPrefix(l, "root ") {
			continue
		}
		lines = append(lines, l)
	}
	return strings.Join(lines, "\n")
}

var _ = filepath.Join
var _ = time.Now

func init() {
	h.RegisterSeq(&h.SeqCheck{
		ID:    "C16",
		Level: "model_checking",
		Rule: "for ordered pairs of repository names (nested, prefixes of each other, names equal to layout entries) breadth-first search over all histories (bounded depth) of blob / manifest / artifact pushes, sessions, the session id used through the other name, mounts in both directions and paged referrers links replayed against the other name; " +
			"in every distinct state the complete read transcript of every name of the universe is compared with the model (nothing may appear where it was not pushed or mounted), and every filesystem call of every request is checked against the addressed repository's own directory, its ancestors (stat/mkdir only) and the root; non-trivial = something pushed",
		Assume: []string{"name universe: a, a/b, a/b/c, ab, a-b, b, a/sha256, a/blobs, a/index.json, a/oci-layout, a/blobs/sha256/<hex of a blob>", "directory backed stores refuse names with reserved elements; their refusal must be a 4xx"},
		Specs:  c16Specs,
		Budget: func(tier string) time.Duration {
			if tier == "thorough" {
				return 12 * time.Minute
			}
			return 110 * time.Second
		},
	})
}
