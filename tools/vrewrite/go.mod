module vrewrite

go 1.21
