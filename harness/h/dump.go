// Package h is the verification harness: worlds, client DSL, state dumps, the exploration
// engines (SEQ, SCHED, CRASH, CONF), evidence and known-finding handling.
package h

import (
	"bytes"
	"crypto/sha256"
	"encoding/hex"
	"fmt"
	"io/fs"
	"os"
	"path/filepath"
	"reflect"
	"sort"
	"strings"
	"time"
	"unsafe"

	"github.com/olareg/olareg/internal/verif/vrt"
)

// Dump writes a canonical deep dump of the object graph reachable from root (a pointer):
// every field, exported or not; pointers numbered in order of first visit; maps sorted;
// function values, loggers and the real sync primitives skipped; times relative to the
// virtual clock. It is generic so that fields added by a changed tree are included.
func Dump(root any) string {
	d := &dumper{seen: map[unsafe.Pointer]int{}, now: vrt.NowNanos()}
	v := reflect.ValueOf(root)
	d.val(v, 0)
	return d.b.String()
}

type dumper struct {
	b    bytes.Buffer
	seen map[unsafe.Pointer]int
	now  int64
}

var timeType = reflect.TypeOf(time.Time{})

func skipType(t reflect.Type) bool {
	switch t.PkgPath() {
	case "log/slog", "net/http", "sync", "sync/atomic", "context", "internal/poll", "syscall":
		return true
	}
	return false
}

func unRO(v reflect.Value) reflect.Value {
	if v.CanInterface() {
		return v
	}
	if v.CanAddr() {
		return reflect.NewAt(v.Type(), unsafe.Pointer(v.UnsafeAddr())).Elem()
	}
	return v
}

func (d *dumper) val(v reflect.Value, depth int) {
	if depth > 60 {
		d.b.WriteString("<deep>")
		return
	}
	if !v.IsValid() {
		d.b.WriteString("nil")
		return
	}
	v = unRO(v)
	t := v.Type()
	if t == timeType {
		if v.CanInterface() {
			tm := v.Interface().(time.Time)
			d.time(tm)
			return
		}
	}
	switch t.PkgPath() + "." + t.Name() {
	case "github.com/olareg/olareg/internal/verif/vsync.Mutex":
		fmt.Fprintf(&d.b, "mu(%v)", v.FieldByName("held").Bool())
		return
	case "github.com/olareg/olareg/internal/verif/vsync.RWMutex":
		fmt.Fprintf(&d.b, "rw(%v,%d)", v.FieldByName("writer").Bool(), v.FieldByName("readers").Int())
		return
	case "github.com/olareg/olareg/internal/verif/vsync.WaitGroup":
		fmt.Fprintf(&d.b, "wg(%d)", v.FieldByName("n").Int())
		return
	case "github.com/olareg/olareg/internal/verif/vsync.Once":
		d.b.WriteString("once")
		return
	case "github.com/olareg/olareg/internal/verif/vrt.VTimer":
		act := v.FieldByName("active").Bool()
		if act {
			fmt.Fprintf(&d.b, "timer(+%d)", v.FieldByName("when").Int()-d.now)
		} else {
			d.b.WriteString("timer(off)")
		}
		return
	case "github.com/olareg/olareg/internal/verif/vos.File":
		fmt.Fprintf(&d.b, "file(%s)", v.FieldByName("name").String())
		return
	case "bytes.Buffer":
		buf := v.FieldByName("buf")
		off := int(v.FieldByName("off").Int())
		bs := unRO(buf).Bytes()
		if off <= len(bs) {
			bs = bs[off:]
		}
		fmt.Fprintf(&d.b, "buf(%q)", bs)
		return
	case "bytes.Reader":
		d.b.WriteString("reader")
		return
	}
	if skipType(t) {
		d.b.WriteString("-")
		return
	}
	switch v.Kind() {
	case reflect.Bool:
		fmt.Fprintf(&d.b, "%v", v.Bool())
	case reflect.Int, reflect.Int8, reflect.Int16, reflect.Int32, reflect.Int64:
		fmt.Fprintf(&d.b, "%d", v.Int())
	case reflect.Uint, reflect.Uint8, reflect.Uint16, reflect.Uint32, reflect.Uint64, reflect.Uintptr:
		fmt.Fprintf(&d.b, "%d", v.Uint())
	case reflect.Float32, reflect.Float64:
		fmt.Fprintf(&d.b, "%v", v.Float())
	case reflect.String:
		fmt.Fprintf(&d.b, "%q", v.String())
	case reflect.Func:
		if v.IsNil() {
			d.b.WriteString("nilfn")
		} else {
			d.b.WriteString("fn")
		}
	case reflect.Chan:
		if v.IsNil() {
			d.b.WriteString("nilch")
		} else {
			fmt.Fprintf(&d.b, "ch(%d/%d)", v.Len(), v.Cap())
		}
	case reflect.UnsafePointer:
		d.b.WriteString("uptr")
	case reflect.Ptr:
		if v.IsNil() {
			d.b.WriteString("nil")
			return
		}
		if skipType(t.Elem()) {
			d.b.WriteString("-")
			return
		}
		p := v.UnsafePointer()
		if id, ok := d.seen[p]; ok {
			fmt.Fprintf(&d.b, "@%d", id)
			return
		}
		id := len(d.seen)
		d.seen[p] = id
		fmt.Fprintf(&d.b, "&%d:", id)
		d.val(v.Elem(), depth+1)
	case reflect.Interface:
		if v.IsNil() {
			d.b.WriteString("nil")
			return
		}
		e := v.Elem()
		fmt.Fprintf(&d.b, "<%s>", e.Type().String())
		if e.Kind() != reflect.Ptr && e.Kind() != reflect.Map && e.Kind() != reflect.Slice {
			ne := reflect.New(e.Type()).Elem()
			ne.Set(e)
			e = ne
		}
		d.val(e, depth+1)
	case reflect.Struct:
		d.b.WriteString("{")
		for i := 0; i < v.NumField(); i++ {
			f := t.Field(i)
			if f.Type.Kind() == reflect.Func {
				continue
			}
			fmt.Fprintf(&d.b, "%s:", f.Name)
			d.val(v.Field(i), depth+1)
			d.b.WriteString(",")
		}
		d.b.WriteString("}")
	case reflect.Slice:
		if v.IsNil() {
			d.b.WriteString("nils")
			return
		}
		if t.Elem().Kind() == reflect.Uint8 {
			fmt.Fprintf(&d.b, "b%q", v.Bytes())
			return
		}
		d.b.WriteString("[")
		for i := 0; i < v.Len(); i++ {
			d.val(v.Index(i), depth+1)
			d.b.WriteString(",")
		}
		d.b.WriteString("]")
	case reflect.Array:
		if t.Elem().Kind() == reflect.Uint8 || t.Elem().Kind() == reflect.Uint32 || t.Elem().Kind() == reflect.Uint64 {
			d.b.WriteString("[")
			for i := 0; i < v.Len(); i++ {
				fmt.Fprintf(&d.b, "%x ", v.Index(i).Uint())
			}
			d.b.WriteString("]")
			return
		}
		d.b.WriteString("[")
		for i := 0; i < v.Len(); i++ {
			d.val(v.Index(i), depth+1)
			d.b.WriteString(",")
		}
		d.b.WriteString("]")
	case reflect.Map:
		if v.IsNil() {
			d.b.WriteString("nilm")
			return
		}
		type kv struct {
			k string
			v reflect.Value
		}
		var kvs []kv
		it := v.MapRange()
		for it.Next() {
			kd := &dumper{seen: map[unsafe.Pointer]int{}, now: d.now}
			k := it.Key()
			nk := reflect.New(k.Type()).Elem()
			nk.Set(k)
			kd.val(nk, 0)
			kvs = append(kvs, kv{kd.b.String(), it.Value()})
		}
		sort.Slice(kvs, func(i, j int) bool { return kvs[i].k < kvs[j].k })
		d.b.WriteString("map{")
		for _, e := range kvs {
			d.b.WriteString(e.k)
			d.b.WriteString("=>")
			ev := e.v
			if ev.Kind() == reflect.Struct || ev.Kind() == reflect.Array {
				ne := reflect.New(ev.Type()).Elem()
				ne.Set(ev)
				ev = ne
			}
			d.val(ev, depth+1)
			d.b.WriteString(";")
		}
		d.b.WriteString("}")
	default:
		fmt.Fprintf(&d.b, "?%s", v.Kind())
	}
}

func (d *dumper) time(tm time.Time) {
	if tm.IsZero() {
		d.b.WriteString("t0")
		return
	}
	rel := tm.UnixNano() - d.now
	if rel < -int64(365*24*time.Hour) {
		d.b.WriteString("t-old")
		return
	}
	fmt.Fprintf(&d.b, "t%+d", rel)
}

// DumpTree is the canonical form of a directory tree: relative path, kind, size, content
// hash, mode and mtime relative to the virtual clock (files only).
func DumpTree(root string) string {
	var lines []string
	now := vrt.NowNanos()
	_ = filepath.Walk(root, func(p string, fi fs.FileInfo, err error) error {
		if err != nil {
			lines = append(lines, fmt.Sprintf("%s ERR %v", p, err))
			return nil
		}
		rel, _ := filepath.Rel(root, p)
		switch {
		case fi.IsDir():
			lines = append(lines, fmt.Sprintf("%s/ %v", rel, fi.Mode().Perm()))
		case fi.Mode()&fs.ModeSymlink != 0:
			tgt, _ := os.Readlink(p)
			lines = append(lines, fmt.Sprintf("%s -> %s", rel, tgt))
		default:
			b, _ := os.ReadFile(p)
			sum := sha256.Sum256(b)
			rt := fi.ModTime().UnixNano() - now
			ts := fmt.Sprintf("%+d", rt)
			if rt < -int64(365*24*time.Hour) {
				ts = "old"
			}
			lines = append(lines, fmt.Sprintf("%s %d %s %v %s", rel, fi.Size(), hex.EncodeToString(sum[:8]), fi.Mode().Perm(), ts))
		}
		return nil
	})
	sort.Strings(lines)
	return strings.Join(lines, "\n")
}

// SnapshotTree is like DumpTree but with absolute mtimes (for "nothing changed" oracles).
func SnapshotTree(root string) string {
	var lines []string
	_ = filepath.Walk(root, func(p string, fi fs.FileInfo, err error) error {
		if err != nil {
			lines = append(lines, fmt.Sprintf("%s ERR %v", p, err))
			return nil
		}
		rel, _ := filepath.Rel(root, p)
		switch {
		case fi.IsDir():
			lines = append(lines, fmt.Sprintf("%s/ %v", rel, fi.Mode().Perm()))
		case fi.Mode()&fs.ModeSymlink != 0:
			tgt, _ := os.Readlink(p)
			lines = append(lines, fmt.Sprintf("%s -> %s", rel, tgt))
		default:
			b, _ := os.ReadFile(p)
			sum := sha256.Sum256(b)
			lines = append(lines, fmt.Sprintf("%s %d %s %v %d", rel, fi.Size(), hex.EncodeToString(sum[:]), fi.Mode().Perm(), fi.ModTime().UnixNano()))
		}
		return nil
	})
	sort.Strings(lines)
	return strings.Join(lines, "\n")
}

func HashStr(parts ...string) string {
	h := sha256.New()
	for _, p := range parts {
		h.Write([]byte(p))
		h.Write([]byte{0})
	}
	return hex.EncodeToString(h.Sum(nil)[:12])
}
