// Package vos shadows "os" inside internal/store in the instrumented build. Every filesystem
// call is logged with its path, is a scheduling point / happens-before event for the explorer,
// mutating calls are numbered so that a crash (or a torn write) can be injected at call k, files
// are stamped with the virtual clock, and CreateTemp names are deterministic. In Off mode
// everything passes through. All other exported names of os are re-exported (zz_alias.go).
package vos

import (
	"errors"
	"io"
	"io/fs"
	"os"
	"path/filepath"
	"strconv"
	"strings"
	"sync"
	"time"

	"github.com/olareg/olareg/internal/verif/vrt"
)

// Op is one logged filesystem call.
type Op struct {
	Kind   string
	Path   string
	Path2  string
	Mut    bool
	N      int // bytes for writes
	Thread int
	Seq    int // index among mutating calls (1-based), 0 for reads
}

type state struct {
	mu       sync.Mutex
	logOn    bool
	log      []Op
	nmut     int
	crashAt  int // crash before mutating call number crashAt (1-based); 0 = never
	crashCut int // <0: before the call; >=0: after writing that many bytes of a write call
	crashed  bool
	open     map[*File]struct{}
	failAt   map[int]error // inject an error instead of performing mutating call k
	failCut  map[int]int   // with failAt on a write: that many bytes reach the file before the error (a short write)
	nread    int           // read-side calls so far (stat, open, readfile, readdir, File.Read)
	failRead map[int]error // read-side call k returns this error once (a transient read failure)
}

var st = state{open: map[*File]struct{}{}}

// Reset clears the log and the injection plan. Call at the start of every execution.
func Reset(logOn bool) {
	st.mu.Lock()
	defer st.mu.Unlock()
	st.logOn = logOn
	st.log = nil
	st.nmut = 0
	st.crashAt = 0
	st.crashCut = -1
	st.crashed = false
	st.failAt = nil
	st.failCut = nil
	st.nread = 0
	st.failRead = nil
	for f := range st.open {
		_ = f.f.Close()
	}
	st.open = map[*File]struct{}{}
}

// CrashAt arms a crash: before mutating call k (cut < 0) or after cut bytes of write call k.
func CrashAt(k, cut int) {
	st.crashAt, st.crashCut = k, cut
}

// FailAt makes mutating call k return err without being performed.
func FailAt(k int, err error) {
	if st.failAt == nil {
		st.failAt = map[int]error{}
	}
	st.failAt[k] = err
}

// FailShortAt makes write call k store the first cut bytes and then return err (disk full in the middle of a chunk).
func FailShortAt(k, cut int, err error) {
	FailAt(k, err)
	if st.failCut == nil {
		st.failCut = map[int]int{}
	}
	st.failCut[k] = cut
}

// FailReadAt makes read-side call k (counted from the last Reset: stat, lstat, open, readfile, readdir and every
// File.Read) return err once.
func FailReadAt(k int, err error) {
	if st.failRead == nil {
		st.failRead = map[int]error{}
	}
	st.failRead[k] = err
}

// ReadCount is the number of read-side calls so far.
func ReadCount() int { return st.nread }

func Crashed() bool { return st.crashed }

// Log returns the operations logged so far.
func Log() []Op { return append([]Op(nil), st.log...) }

func LogLen() int { return len(st.log) }

func MutCount() int { return st.nmut }

// CloseAllOpen closes descriptors left open by an abandoned execution.
func CloseAllOpen() {
	for f := range st.open {
		_ = f.f.Close()
	}
	st.open = map[*File]struct{}{}
}

func hashPath(p string) uintptr {
	h := uint64(14695981039346656037)
	for i := 0; i < len(p); i++ {
		h ^= uint64(p[i])
		h *= 1099511628211
	}
	if h == 0 {
		h = 1
	}
	return uintptr(h)
}

var errCrashed = errors.New("vos: process has crashed")

// pre is called before every operation. It returns (seq, cut, err): err != nil means the
// operation must not be performed (after a crash, or injected failure); cut >= 0 means a
// write must be torn after cut bytes and then crash.
//
//go:norace
func pre(kind, path, path2 string, mut bool, n int) (int, int, error) {
	if !vrt.IsControlled() {
		return 0, -1, nil
	}
	if st.crashed {
		if mut {
			return 0, -1, errCrashed
		}
		return 0, -1, nil
	}
	o2 := uintptr(0)
	if mut || kind == "readdir" {
		o2 = hashPath(filepath.Dir(path))
	}
	if path2 != "" {
		o2 = hashPath(path2)
	}
	vrt.FSPoint(kind+" "+path, hashPath(path), o2)
	seq := 0
	if mut {
		st.nmut++
		seq = st.nmut
	}
	if st.logOn {
		st.log = append(st.log, Op{Kind: kind, Path: path, Path2: path2, Mut: mut, N: n, Thread: vrt.Cur(), Seq: seq})
	}
	if !mut {
		st.nread++
		if err, ok := st.failRead[st.nread]; ok {
			// as the os package reports it: a *fs.PathError around the errno
			return 0, -1, &fs.PathError{Op: kind, Path: path, Err: err}
		}
	}
	if mut {
		if err, ok := st.failAt[seq]; ok {
			return seq, -1, err
		}
		if st.crashAt != 0 && seq == st.crashAt {
			if st.crashCut < 0 || (kind != "write" && kind != "writefile") {
				st.crashed = true
				vrt.CrashNow()
			}
			return seq, st.crashCut, nil
		}
	}
	return seq, -1, nil
}

func crashAfterTornWrite() {
	st.crashed = true
	vrt.CrashNow()
}

func stamp(path string) {
	if vrt.IsControlled() {
		t := vrt.Now()
		_ = os.Chtimes(path, t, t)
	}
}

// ---- File -----------------------------------------------------------------------------------

type File struct {
	f    *os.File
	name string
	wr   bool
}

func wrap(f *os.File, wr bool) *File {
	if f == nil {
		return nil
	}
	vf := &File{f: f, name: f.Name(), wr: wr}
	if vrt.IsControlled() && !vrt.RaceBuild {
		st.open[vf] = struct{}{}
	}
	return vf
}

func (f *File) Name() string { return f.name }

func (f *File) Fd() uintptr { return f.f.Fd() }

//go:norace
func (f *File) Read(p []byte) (int, error) {
	if f == nil {
		return 0, os.ErrInvalid
	}
	if vrt.IsControlled() && !st.crashed && st.failRead != nil {
		// counted only while a read fault is armed: no scheduling point, the numbering of the other runs is unchanged
		st.nread++
		if err, ok := st.failRead[st.nread]; ok {
			return 0, &fs.PathError{Op: "read", Path: f.name, Err: err}
		}
	}
	return f.f.Read(p)
}

func (f *File) ReadAt(p []byte, off int64) (int, error) {
	if f == nil {
		return 0, os.ErrInvalid
	}
	return f.f.ReadAt(p, off)
}

// A nil *os.File answers os.ErrInvalid from every method but Name and Fd; the wrapper must do the same (a nil
// wrapper that panicked in Seek was a false alarm of C01: Verify's rescan on a session another request had ended).
func (f *File) Seek(off int64, whence int) (int64, error) {
	if f == nil {
		return 0, os.ErrInvalid
	}
	return f.f.Seek(off, whence)
}

func (f *File) Write(p []byte) (int, error) {
	if f == nil {
		return 0, os.ErrInvalid
	}
	seq, cut, err := pre("write", f.name, "", true, len(p))
	if err != nil {
		if c, ok := st.failCut[seq]; ok && c > 0 {
			if c > len(p) {
				c = len(p)
			}
			n, _ := f.f.Write(p[:c])
			stamp(f.name)
			return n, err
		}
		return 0, err
	}
	if cut >= 0 {
		if cut > len(p) {
			cut = len(p)
		}
		_, _ = f.f.Write(p[:cut])
		stamp(f.name)
		crashAfterTornWrite()
	}
	n, err := f.f.Write(p)
	stamp(f.name)
	return n, err
}

func (f *File) WriteString(s string) (int, error) { return f.Write([]byte(s)) }

func (f *File) WriteAt(p []byte, off int64) (int, error) {
	if f == nil {
		return 0, os.ErrInvalid
	}
	_, _, err := pre("write", f.name, "", true, len(p))
	if err != nil {
		return 0, err
	}
	n, err := f.f.WriteAt(p, off)
	stamp(f.name)
	return n, err
}

func (f *File) Close() error {
	if f == nil {
		return os.ErrInvalid
	}
	if vrt.IsControlled() && !vrt.RaceBuild {
		delete(st.open, f)
	}
	return f.f.Close()
}

func (f *File) Stat() (fs.FileInfo, error) {
	if f == nil {
		return nil, os.ErrInvalid
	}
	return f.f.Stat()
}

func (f *File) Sync() error {
	if f == nil {
		return os.ErrInvalid
	}
	return f.f.Sync()
}

func (f *File) Truncate(size int64) error {
	if f == nil {
		return os.ErrInvalid
	}
	_, _, err := pre("truncate", f.name, "", true, 0)
	if err != nil {
		return err
	}
	err = f.f.Truncate(size)
	stamp(f.name)
	return err
}

func (f *File) Chmod(m fs.FileMode) error {
	if f == nil {
		return os.ErrInvalid
	}
	return f.f.Chmod(m)
}

func (f *File) ReadDir(n int) ([]fs.DirEntry, error) {
	if f == nil {
		return nil, os.ErrInvalid
	}
	ents, err := f.f.ReadDir(n)
	sortEntries(ents)
	return ents, err
}

func (f *File) Readdirnames(n int) ([]string, error) {
	if f == nil {
		return nil, os.ErrInvalid
	}
	return f.f.Readdirnames(n)
}

var _ io.ReadWriteSeeker = (*File)(nil)

// ---- functions ------------------------------------------------------------------------------

func Stat(name string) (fs.FileInfo, error) {
	if _, _, err := pre("stat", name, "", false, 0); err != nil {
		return nil, err
	}
	return os.Stat(name)
}

func Lstat(name string) (fs.FileInfo, error) {
	if _, _, err := pre("lstat", name, "", false, 0); err != nil {
		return nil, err
	}
	return os.Lstat(name)
}

func Open(name string) (*File, error) {
	if _, _, err := pre("open", name, "", false, 0); err != nil {
		return nil, err
	}
	f, err := os.Open(name)
	if err != nil {
		return nil, err
	}
	return wrap(f, false), nil
}

func Create(name string) (*File, error) {
	return OpenFile(name, os.O_RDWR|os.O_CREATE|os.O_TRUNC, 0o666)
}

func OpenFile(name string, flag int, perm fs.FileMode) (*File, error) {
	mut := flag&(os.O_WRONLY|os.O_RDWR|os.O_CREATE|os.O_TRUNC|os.O_APPEND) != 0
	kind := "open"
	if mut {
		kind = "openw"
	}
	if _, _, err := pre(kind, name, "", mut, 0); err != nil {
		return nil, err
	}
	f, err := os.OpenFile(name, flag, perm)
	if err != nil {
		return nil, err
	}
	if mut {
		stamp(name)
	}
	return wrap(f, mut), nil
}

func ReadFile(name string) ([]byte, error) {
	if _, _, err := pre("readfile", name, "", false, 0); err != nil {
		return nil, err
	}
	return os.ReadFile(name)
}

func WriteFile(name string, data []byte, perm fs.FileMode) error {
	_, cut, err := pre("writefile", name, "", true, len(data))
	if err != nil {
		return err
	}
	if cut >= 0 {
		if cut > len(data) {
			cut = len(data)
		}
		_ = os.WriteFile(name, data[:cut], perm)
		stamp(name)
		crashAfterTornWrite()
	}
	err = os.WriteFile(name, data, perm)
	stamp(name)
	return err
}

func Mkdir(name string, perm fs.FileMode) error {
	if _, _, err := pre("mkdir", name, "", true, 0); err != nil {
		return err
	}
	return os.Mkdir(name, perm)
}

func MkdirAll(path string, perm fs.FileMode) error {
	if _, _, err := pre("mkdirall", path, "", true, 0); err != nil {
		return err
	}
	return os.MkdirAll(path, perm)
}

func Rename(oldpath, newpath string) error {
	if _, _, err := pre("rename", oldpath, newpath, true, 0); err != nil {
		return err
	}
	return os.Rename(oldpath, newpath)
}

func Remove(name string) error {
	if _, _, err := pre("remove", name, "", true, 0); err != nil {
		return err
	}
	return os.Remove(name)
}

func RemoveAll(name string) error {
	if _, _, err := pre("removeall", name, "", true, 0); err != nil {
		return err
	}
	return os.RemoveAll(name)
}

func ReadDir(name string) ([]fs.DirEntry, error) {
	if _, _, err := pre("readdir", name, "", false, 0); err != nil {
		return nil, err
	}
	return os.ReadDir(name) // sorted by name already
}

func Chtimes(name string, a, m time.Time) error {
	if _, _, err := pre("chtimes", name, "", true, 0); err != nil {
		return err
	}
	return os.Chtimes(name, a, m)
}

func Chmod(name string, m fs.FileMode) error {
	if _, _, err := pre("chmod", name, "", true, 0); err != nil {
		return err
	}
	return os.Chmod(name, m)
}

func Symlink(oldname, newname string) error {
	if _, _, err := pre("symlink", newname, oldname, true, 0); err != nil {
		return err
	}
	return os.Symlink(oldname, newname)
}

func Link(oldname, newname string) error {
	if _, _, err := pre("link", newname, oldname, true, 0); err != nil {
		return err
	}
	return os.Link(oldname, newname)
}

func Truncate(name string, size int64) error {
	if _, _, err := pre("truncate", name, "", true, 0); err != nil {
		return err
	}
	err := os.Truncate(name, size)
	stamp(name)
	return err
}

// CreateTemp: deterministic names under the controlled runtime (smallest free positive
// number in place of the random part).
func CreateTemp(dir, pattern string) (*File, error) {
	if !vrt.IsControlled() {
		f, err := os.CreateTemp(dir, pattern)
		if err != nil {
			return nil, err
		}
		return wrap(f, true), nil
	}
	if dir == "" {
		dir = os.TempDir()
	}
	prefix, suffix := pattern, ""
	if i := strings.LastIndex(pattern, "*"); i >= 0 {
		prefix, suffix = pattern[:i], pattern[i+1:]
	}
	if _, _, err := pre("createtemp", filepath.Join(dir, prefix+"*"+suffix), "", true, 0); err != nil {
		return nil, err
	}
	for try := 0; try < 10000; try++ {
		tp, n := vrt.TempSeq()
		name := filepath.Join(dir, prefix+tempName(tp, n)+suffix)
		f, err := os.OpenFile(name, os.O_RDWR|os.O_CREATE|os.O_EXCL, 0o600)
		if err != nil {
			if os.IsExist(err) {
				continue // a file left behind by an earlier process (crash): take the next name, as os.CreateTemp retries
			}
			return nil, err
		}
		stamp(name)
		return wrap(f, true), nil
	}
	return nil, errors.New("vos: no free temp name")
}

// tempName: the main thread's files are numbered 1, 2, ...; other threads carry their identity.
func tempName(tp uint64, n uint32) string {
	if tp == 0x9e3779b97f4a7c15 {
		return strconv.Itoa(int(n))
	}
	return strconv.FormatUint(tp>>40, 16) + "-" + strconv.Itoa(int(n))
}

func MkdirTemp(dir, pattern string) (string, error) {
	if !vrt.IsControlled() {
		return os.MkdirTemp(dir, pattern)
	}
	if dir == "" {
		dir = os.TempDir()
	}
	prefix, suffix := pattern, ""
	if i := strings.LastIndex(pattern, "*"); i >= 0 {
		prefix, suffix = pattern[:i], pattern[i+1:]
	}
	if _, _, err := pre("mkdirtemp", filepath.Join(dir, prefix+"*"+suffix), "", true, 0); err != nil {
		return "", err
	}
	tp, n := vrt.TempSeq()
	name := filepath.Join(dir, prefix+tempName(tp, n)+suffix)
	if err := os.Mkdir(name, 0o700); err != nil {
		return "", err
	}
	return name, nil
}

func sortEntries(ents []fs.DirEntry) {
	for i := 1; i < len(ents); i++ {
		for j := i; j > 0 && ents[j].Name() < ents[j-1].Name(); j-- {
			ents[j], ents[j-1] = ents[j-1], ents[j]
		}
	}
}
